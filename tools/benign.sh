#!/bin/bash
# tools/benign.sh primary|related [names...] — FALSE-ALARM test: run the checks against each behaviour-preserving refactoring
# kept in /verif/benign/<name>/ (patch.diff, demo.py, meta.json; written by independent sub-agents that saw only a property
# text). Every check must exit 0. The patches apply to the commit in benign/BASE (older than the D15 fix, hence
# VERIF_PRE_D15=1 and no corpus: the corpus holds the D15 regression case, which that base rightly fails).
# NOTE: the bases are older than the D15/D16/D17 repairs, so what those defects cause is rightly reported on these trees too
# (C09 `refused-valid-covariance:gate` = D16 on every python.py patch of the first round); that is not a false alarm.
#   primary: the check of the property the refactoring was written against (+ demo + pinned baseline)
#   related: every check anchored in one of the files the patch touches
cd "$(dirname "$0")/.."
PASS=${1:-primary}; shift
BASE=$(cat benign/BASE)
LIST=${@:-$(ls benign | grep '^[CB]')}
for p in $LIST; do
  d=benign/$p; [ -f $d/patch.diff ] || continue
  # B01..B05 (second round: C++ text layout) were written against a later commit (benign/<name>/base) that has the D15 fix
  if [ -f $d/base ]; then BASE=$(cat $d/base); unset VERIF_PRE_D15 VERIF_NO_CORPUS; else BASE=$(cat benign/BASE); export VERIF_PRE_D15=1 VERIF_NO_CORPUS=1; fi
  files=$(grep '^diff --git' $d/patch.diff | sed 's/.* b\///' | tr '\n' ' ')
  ids=""
  if [ $PASS = primary ] && [ "${p:0:1}" = C ]; then ids=$p; else
    for f in $files; do case $f in
      py/formak/python.py) ids="$ids C01 C03 C04 C05 C06 C08 C09 C13 C14 C15 C16 C17 C18 C10 C11";;
      py/formak/cpp.py|py/formak/ast_fragments.py|py/formak/ast_tools.py|py/formak/templates/*|cpp/include/*) ids="$ids C02 C06 C07 C08 C09 C12 C13 C14 C15";;
      py/formak/runtime.py) ids="$ids C10 C11";;
      cpp/runtime/*) ids="$ids C10 C11 C12";;
      py/formak/ui_model.py|py/formak/ui.py) ids="$ids C01 C14 C18 C13";;
      py/formak/ui_state_machine.py) ids="$ids C18";;
      py/formak/common.py) ids="$ids C01 C02 C03 C05 C13 C14 C16";;
      py/formak/reference_models/*) ids="$ids C19";;
    esac; done
    ids=$(echo $ids | tr ' ' '\n' | sort -u | grep -v "^$p$" | tr '\n' ' ')
    [ "${p:0:1}" = B ] && ids="C02 C06 C07 C08 C09 C10 C11 C12 C13 C14 C15"
  fi
  W=$(mktemp -d /tmp/formak_ben.XXXXXX); OUT=$W/out
  git -C /repo worktree add -q --detach $W/repo $BASE || exit 2
  if ! git -C $W/repo apply $(readlink -f $d/patch.diff); then echo "$p PATCH DOES NOT APPLY"; else
    if [ $PASS = primary ]; then
      DEMO=$(readlink -f $d/demo.py)
      ( cd $W/repo && PYTHONPATH=$W/repo/py MPLBACKEND=Agg timeout 300 /venv/bin/python $DEMO $W/repo >/dev/null 2>&1 ); echo "$p demo with patch: exit $?"
      echo "$p baseline: $(tools/baseline.sh $W/repo | head -1)"
    fi
    for id in $ids; do
      FORMAK_REPO=$W/repo VERIF_OUT=$OUT timeout 1500 ./check $id quick > $W/$id.log 2>&1; rc=$?
      echo "$p -> $id exit=$rc $(grep -m1 -A2 '^VIOLATION\|^HARNESS' $W/$id.log | tr '\n' ' ' | cut -c1-300)"
    done
  fi
  git -C /repo worktree remove --force $W/repo; rm -rf $W; git -C /repo worktree prune
done
