#!/bin/bash
# tools/runall.sh [quick|thorough] : run every registered check sequentially, print a summary line each
cd "$(dirname "$0")/.."
TIER="${1:-quick}"
for id in $(/venv/bin/python -c "import json; print(' '.join(c['property_id'] for c in json.load(open('MANIFEST.json'))['checks']))"); do
  s=$(date +%s)
  ./check $id $TIER > /tmp/runall_$id.log 2>&1
  rc=$?
  e=$(date +%s)
  echo "$id rc=$rc $((e-s))s $(grep -a -E "^$id $TIER" /tmp/runall_$id.log | cut -c1-120) $(grep -a -c '^VIOLATION' /tmp/runall_$id.log) viol $(grep -a -c '^KNOWN-FINDING' /tmp/runall_$id.log) known"
done
