#!/bin/bash
# validate MANIFEST.json and evidence/*.json against the schemas (uses the tooling venv's jsonschema)
cd "$(dirname "$0")/.."
python3-vt - <<'PY'
import json, glob, jsonschema, sys
m = json.load(open("MANIFEST.json")); jsonschema.validate(m, json.load(open("/root/.vp/MANIFEST.schema.json")))
print("MANIFEST ok:", len(m["checks"]), "checks")
es = json.load(open("/root/.vp/EVIDENCE.schema.json"))
bad = 0
for f in sorted(glob.glob("evidence/*.json")):
    try:
        jsonschema.validate(json.load(open(f)), es)
    except Exception as e:
        bad += 1; print("EVIDENCE INVALID", f, str(e)[:300])
print("evidence files:", len(glob.glob("evidence/*.json")), "invalid:", bad)
ids = {json.loads(l)["id"] for l in open("properties.jsonl")}
claimed = {c["property_id"] for c in m["checks"]}; na = {n["property_id"] for n in m.get("not_applicable", [])}
print("unaccounted:", sorted(ids - claimed - na), "overlap:", sorted(claimed & na))
sys.exit(1 if bad else 0)
PY
