#!/bin/bash
# tools/corpusall.sh — build a corpus regression case (quick tier, no shrink) for every kept seed that has none yet
cd /verif
for d in seeded/*/; do
  n=$(basename $d); id=${n%%-*}
  [ -f corpus/$id/seed-$n.json ] && continue
  TIER=quick VERIF_EXAMPLES=12 tools/mkcorpus.sh $d/patch.diff seed-$n $id
done
echo ALL-DONE
