#!/venv/bin/python
"""tools/seedkeep.py <src dir> <name> <property> '<caught by: ID bucket; ...>' '<what I ran>' ['<note>']
Copies patch.diff + demo + meta.json into /verif/seeded/<name>/ and records my own confirmation."""
import json, os, shutil, sys
src, name, prop, caught, ran = sys.argv[1:6]
note = sys.argv[6] if len(sys.argv) > 6 else ""
dst = os.path.join("/verif/seeded", name)
os.makedirs(dst, exist_ok=True)
shutil.copy(os.path.join(src, "patch.diff"), dst)
for f in os.listdir(src):
    if f.startswith("demo."):
        shutil.copy(os.path.join(src, f), dst)
meta = {}
try:
    meta = json.load(open(os.path.join(src, "meta.json")))
except Exception as e:
    meta = {"note": f"agent meta.json unreadable: {e}"}
out = {
    "breaks_property": prop,
    "summary": meta.get("summary", ""),
    "needs_to_manifest": meta.get("needs_to_manifest", ""),
    "files_changed": meta.get("files_changed", []),
    "origin": "written by an independent sub-agent that saw only the property text and a scratch worktree",
    "confirmed_by_me": {
        "procedure": "tools/seedverify.sh: fresh scratch worktree of /repo HEAD; demo exits 0 on the original and non-zero with the patch; pinned baseline 42/42 with the patch; then quick checks against the patched worktree (FORMAK_REPO, VERIF_OUT)",
        "ran": ran,
        "caught_by": caught,
        "note": note,
    },
    "agent_meta": meta,
}
json.dump(out, open(os.path.join(dst, "meta.json"), "w"), indent=1)
print("kept", dst)
