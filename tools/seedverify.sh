#!/bin/bash
# tools/seedverify.sh <dir with patch.diff demo.py> <ID> [<ID>...]
# Confirms a seeded change in a fresh scratch worktree: demo passes on the original and fails with the patch, the pinned
# baseline still passes with the patch, then runs the named quick checks against the patched worktree.
set -u
SRC="$(readlink -f "$1")"; shift
W=$(mktemp -d /tmp/formak_sv.XXXXXX); OUT=$(mktemp -d /tmp/formak_svout.XXXXXX)
git -C /repo worktree add -q --detach "$W/repo" HEAD || exit 2
cd "$W/repo"
cp "$SRC"/demo.* "$W/" 2>/dev/null
DEMO=$(ls "$W"/demo.* | head -1)
run_demo() { ( cd "$W/repo" && PYTHONPATH="$W/repo/py" MPLBACKEND=Agg timeout 300 /venv/bin/python "$DEMO" "$W/repo" > "$OUT/demo_$1.log" 2>&1 ); echo $?; }
echo "demo on original : exit $(run_demo orig)"
if ! git apply "$SRC/patch.diff"; then echo "PATCH DOES NOT APPLY"; cd /; git -C /repo worktree remove --force "$W/repo"; rm -rf "$W" "$OUT"; exit 2; fi
echo "demo with patch  : exit $(run_demo patched)   ($(tail -1 "$OUT/demo_patched.log" | cut -c1-160))"
if [ -z "${SKIP_BASELINE:-}" ]; then echo "baseline with patch: $(/verif/tools/baseline.sh "$W/repo" | head -3 | tr '\n' ' ')"; fi
cd /verif
for id in "$@"; do
  FORMAK_REPO="$W/repo" VERIF_OUT="$OUT" timeout 1500 ./check "$id" "${TIER:-quick}" > "$OUT/$id.log" 2>&1
  rc=$?
  echo "== $id exit=$rc $(grep -m1 -A2 '^VIOLATION' "$OUT/$id.log" | tr '\n' ' ' | cut -c1-420)"
done
git -C /repo worktree remove --force "$W/repo"; rm -rf "$W" "$OUT"; git -C /repo worktree prune
