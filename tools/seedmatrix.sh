#!/bin/bash
# tools/seedmatrix.sh [pattern] — run every kept seeded change (seeded/<pattern>*) against the check of the property it
# breaks, WITHOUT the regression corpus and at another VERIF_SEED (default 3) than the one it was first confirmed with:
# each line must show exit=1 with a VIOLATION (the search finds the change again, not a replayed case).
cd "$(dirname "$0")/.."
for s in seeded/${1:-}*; do n=$(basename $s); id=${n%-*}
  echo "$n: $(VERIF_NO_CORPUS=1 VERIF_SEED=${VERIF_SEED:-3} tools/mut.sh $s/patch.diff $id | cut -c1-200)"
done
