#!/bin/bash
# tools/seedsweep.sh <seed>... : run every quick check at the given VERIF_SEED values; print only anomalies and a summary
cd "$(dirname "$0")/.."
export VERIF_OUT="${VERIF_OUT:-$(mktemp -d /tmp/sweep.XXXXXX)}"
for seed in "$@"; do
  for id in $(/venv/bin/python -c "import json; print(' '.join(c['property_id'] for c in json.load(open('MANIFEST.json'))['checks']))"); do
    VERIF_SEED=$seed ./check $id quick > "$VERIF_OUT/$id.$seed.log" 2>&1
    rc=$?
    if [ $rc -ne 0 ]; then echo "ANOMALY seed=$seed $id rc=$rc"; grep -A3 -E "^(VIOLATION|HARNESS)" "$VERIF_OUT/$id.$seed.log" | cut -c1-400 | head -12; fi
  done
  echo "seed $seed done"
done
echo "logs in $VERIF_OUT"
