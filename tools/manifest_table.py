"""Per-property manifest texts. A property appears in CHECKS once its check is built; until then in NOT_APPLICABLE."""

CHECKS = [
    {
        "property_id": "C01",
        "technique": "property-based testing (Hypothesis): generated models x points x CSE on/off against an independent mpmath reference evaluator",
        "text": "Generated-input search: thousands of random model definitions (adversarial names, declaration orders, containers, shared sub-expressions) evaluated through python.compile and compared by state name with an mpmath evaluation of the generator's own expression tree; CSE on vs off compared directly. Exploration, not proof: bounded sizes and input box.",
        "note": "Trusts mpmath, the harness' tree evaluator and the 1e-9*scale tolerance rule tied to the generator (denominators bounded away from 0). Bounds: <=5 states, depth<=3, |inputs|<=3.",
    },
]

_PENDING = "check not built yet in this revision of /verif (planned in DESIGN.md section 6)"
NOT_APPLICABLE = [
    {"property_id": f"C{i:02d}", "reason": _PENDING}
    for i in range(1, 20)
    if f"C{i:02d}" not in {c["property_id"] for c in CHECKS}
]
