"""Per-property manifest texts. A property appears in CHECKS once its check is built; until then in NOT_APPLICABLE."""

CHECKS = [
    {
        "property_id": "C01",
        "technique": "property-based testing (Hypothesis): generated models x points x CSE on/off against an independent mpmath reference evaluator",
        "text": "Generated-input search: thousands of random model definitions (adversarial names, declaration orders, containers, shared sub-expressions) evaluated through python.compile and compared by state name with an mpmath evaluation of the generator's own expression tree; CSE on vs off compared directly. Exploration, not proof: bounded sizes and input box.",
        "note": "Trusts mpmath, the harness' tree evaluator and the 1e-9*scale tolerance rule tied to the generator (denominators bounded away from 0). Bounds: <=5 states, depth<=3, |inputs|<=3.",
    },
    {
        "property_id": "C03",
        "technique": "property-based testing (Hypothesis): generated rectangular EKF definitions x points against high-precision central-difference Jacobians, compared by (row name, column name)",
        "text": "Generated-input search over EKF definitions whose sensors have a different number of readings than states (+calibrations), comparing process/control/sensor Jacobians of python.compile_ekf entry-wise, by name, with 60-digit central differences of an independent evaluator. Exploration within bounded sizes.",
        "note": "Trusts mpmath and the harness evaluator; derivative tolerance 1e-9*max(1,abs-derivative-scale). <=4 states, <=4 readings, smooth expressions only. Sensors must be defined at the all-zero state (FormaK's pre-flight evaluates them there).",
    },
    {
        "property_id": "C04",
        "technique": "property-based testing (Hypothesis): generated models x dt x SPD covariances x controls against a textbook mpmath prediction; purity and repeatability invariants",
        "text": "Generated-input search comparing process_model with x'=f, P'=G P G^T+V M V^T evaluated in 60-digit mpmath from central-difference Jacobians and the user's named noises; inputs bitwise unchanged; second call bit-identical. Exploration within bounded sizes.",
        "note": "SPD covariances with condition number <= 100 (the property's own quantifier); tolerance 1e-9*abs-scale; <=4 states, <=3 controls.",
    },
    {
        "property_id": "C05",
        "technique": "property-based testing (Hypothesis): generated multi-reading sensors x covariances x targeted non-rejected readings against a textbook mpmath Kalman update; consequence invariants",
        "text": "Generated-input search comparing sensor_model (state, covariance, recorded innovation and innovation covariance) with the textbook Kalman correction in 60-digit mpmath, for sensors of 1..4 readings with unequal noises, plus zero-innovation, symmetry, posterior<=prior and purity invariants. Exploration within bounded sizes.",
        "note": "Covariances rescaled (power of two) so cond(S) stays moderate; readings are constructed not to be rejected (tau<=0.9 of the threshold or filtering disabled).",
    },
    {
        "property_id": "C02",
        "cpp": True,
        "technique": "property-based testing (Hypothesis) with compile-and-run: generated definitions -> cpp.compile/compile_ekf -> g++ -> driver; outputs addressed by named accessor vs mpmath evaluator, central differences and configured noise",
        "text": "Generated-input search over all four control x calibration combinations, 0..3 sensors of 1..4 readings and both CSE settings: the generated header/source must compile and every entry of the model, both Jacobians, sensor predictions/Jacobians and both noise matrices must equal the independent reference in the slot its name designates. Exploration; C++ programs are sampled (a compile per program).",
        "note": "Compiles against a vendored Eigen-shaped stand-in with g++ 12 (Eigen and Bazel are absent); identifier-safe names; dt symbol named dt; <=4 states.",
    },
    {
        "property_id": "C06",
        "cpp": True,
        "technique": "property-based testing (Hypothesis) + exhaustive enumeration of bit-exact boundary constructions: exact rational NIS oracle; differential Python / C++ helper / generated C++",
        "text": "Decision functions are driven with generated (m, k, S^-1, y) incl. innovations placed at tau*T and an enumerated family of constructions with NIS exactly equal to the threshold +-j ulp, against an exact rational oracle; the Python filter and the compiled generated C++ filter are driven with readings targeted on both sides of the threshold and with filtering disabled, checking that a discard returns the inputs unchanged while still recording the innovation. Exploration + a completely enumerated boundary sub-domain.",
        "note": "Threshold formed in doubles as k*sqrt(2m)+m by both implementations (read from the code); rounding dead-zone stated in the evidence assumptions; generated-C++ thresholds sampled; stand-in instead of Eigen.",
    },
    {
        "property_id": "C07",
        "cpp": True,
        "technique": "differential property-based testing (Hypothesis): one generated definition through python.compile_ekf and through cpp.compile_ekf+g++; step results compared by name with each other and with a textbook mpmath EKF",
        "text": "Generated definitions over all four control x calibration combinations, both CSE settings and enabled/disabled filtering are run through both back-ends on the same named inputs; prediction and update results, stored innovations and accept/reject decisions must agree with each other and with the reference EKF. Exploration; one compile per program.",
        "note": "Decisions compared away from the threshold only; stand-in instead of Eigen; identifier-safe names; <=4 states.",
    },
]

_PENDING = "check not built yet in this revision of /verif (planned in DESIGN.md section 6)"
NOT_APPLICABLE = [
    {"property_id": f"C{i:02d}", "reason": _PENDING}
    for i in range(1, 20)
    if f"C{i:02d}" not in {c["property_id"] for c in CHECKS}
]
