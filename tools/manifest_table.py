"""Per-property manifest texts. A property appears in CHECKS once its check is built; until then in NOT_APPLICABLE."""

CHECKS = [
    {
        "property_id": "C01",
        "technique": "property-based testing (Hypothesis): generated models x points x CSE on/off against an independent mpmath reference evaluator",
        "text": "Generated-input search: thousands of random model definitions (adversarial names, declaration orders, containers, shared sub-expressions) evaluated through python.compile and compared by state name with an mpmath evaluation of the generator's own expression tree; CSE on vs off compared directly. Exploration, not proof: bounded sizes and input box.",
        "note": "Trusts mpmath, the harness' tree evaluator and the 1e-9*scale tolerance rule tied to the generator (denominators bounded away from 0). Bounds: <=5 states, depth<=3, |inputs|<=3.",
    },
    {
        "property_id": "C03",
        "technique": "property-based testing (Hypothesis): generated rectangular EKF definitions x points against high-precision central-difference Jacobians, compared by (row name, column name)",
        "text": "Generated-input search over EKF definitions whose sensors have a different number of readings than states (+calibrations), comparing process/control/sensor Jacobians of python.compile_ekf entry-wise, by name, with 60-digit central differences of an independent evaluator. Exploration within bounded sizes.",
        "note": "Trusts mpmath and the harness evaluator; derivative tolerance 1e-9*max(1,abs-derivative-scale). <=4 states, <=4 readings, smooth expressions only. Sensors must be defined at the all-zero state (FormaK's pre-flight evaluates them there).",
    },
    {
        "property_id": "C04",
        "technique": "property-based testing (Hypothesis): generated models x dt x SPD covariances x controls against a textbook mpmath prediction; purity and repeatability invariants",
        "text": "Generated-input search comparing process_model with x'=f, P'=G P G^T+V M V^T evaluated in 60-digit mpmath from central-difference Jacobians and the user's named noises; inputs bitwise unchanged; second call bit-identical. Exploration within bounded sizes.",
        "note": "SPD covariances with condition number <= 100 (the property's own quantifier); tolerance 1e-9*abs-scale; <=4 states, <=3 controls.",
    },
    {
        "property_id": "C05",
        "technique": "property-based testing (Hypothesis): generated multi-reading sensors x covariances x targeted non-rejected readings against a textbook mpmath Kalman update; consequence invariants",
        "text": "Generated-input search comparing sensor_model (state, covariance, recorded innovation and innovation covariance) with the textbook Kalman correction in 60-digit mpmath, for sensors of 1..4 readings with unequal noises, plus zero-innovation, symmetry, posterior<=prior and purity invariants. Exploration within bounded sizes.",
        "note": "Covariances rescaled (power of two) so cond(S) stays moderate; readings are constructed not to be rejected (tau<=0.9 of the threshold or filtering disabled).",
    },
    {
        "property_id": "C02",
        "cpp": True,
        "technique": "property-based testing (Hypothesis) with compile-and-run: generated definitions -> cpp.compile/compile_ekf -> g++ -> driver; outputs addressed by named accessor vs mpmath evaluator, central differences and configured noise",
        "text": "Generated-input search over all four control x calibration combinations, 0..3 sensors of 1..4 readings and both CSE settings: the generated header/source must compile and every entry of the model, both Jacobians, sensor predictions/Jacobians and both noise matrices must equal the independent reference in the slot its name designates. Exploration; C++ programs are sampled (a compile per program).",
        "note": "Compiles against a vendored Eigen-shaped stand-in with g++ 12 (Eigen and Bazel are absent); identifier-safe names; dt symbol named dt; <=4 states.",
    },
    {
        "property_id": "C06",
        "cpp": True,
        "technique": "property-based testing (Hypothesis) + exhaustive enumeration of bit-exact boundary constructions: exact rational NIS oracle; differential Python / C++ helper / generated C++",
        "text": "Decision functions are driven with generated (m, k, S^-1, y) incl. innovations placed at tau*T and an enumerated family of constructions with NIS exactly equal to the threshold +-j ulp, against an exact rational oracle; the Python filter and the compiled generated C++ filter are driven with readings targeted on both sides of the threshold and with filtering disabled, checking that a discard returns the inputs unchanged while still recording the innovation. Exploration + a completely enumerated boundary sub-domain.",
        "note": "Threshold formed in doubles as k*sqrt(2m)+m by both implementations (read from the code); rounding dead-zone stated in the evidence assumptions; generated-C++ thresholds sampled; stand-in instead of Eigen.",
    },
    {
        "property_id": "C07",
        "cpp": True,
        "technique": "differential property-based testing (Hypothesis): one generated definition through python.compile_ekf and through cpp.compile_ekf+g++; step results compared by name with each other and with a textbook mpmath EKF",
        "text": "Generated definitions over all four control x calibration combinations, both CSE settings and enabled/disabled filtering are run through both back-ends on the same named inputs; prediction and update results, stored innovations and accept/reject decisions must agree with each other and with the reference EKF. Exploration; one compile per program.",
        "note": "Decisions compared away from the threshold only; stand-in instead of Eigen; identifier-safe names; <=4 states.",
    },
    {
        "property_id": "C08",
        "cpp": True,
        "technique": "metamorphic property-based testing (Hypothesis): sharing-pool models with CSE on vs off in both back-ends, plus a layout-agnostic single-assignment validity predicate over the generated C++ text",
        "text": "Generated models with forced nested shared sub-expressions: Python model/Jacobians/prediction/update with CSE on vs off must agree and match the reference; the same definition generated as C++ with CSE on and off, both compiled and run, must agree entry for entry; every temporary in the generated C++ is declared once, never assigned again and only used after its declaration in a visible scope (layout-agnostic single-assignment predicate over statements; temporaries recognised by the underscore-letters-number naming convention of local doubles). The Python back-end is judged by values only. Exploration.",
        "note": "single-assignment predicate is textual (statement / brace level, independent of whitespace, qualifiers and the letters in the temporaries' names); direct on-vs-off comparison skipped at ill-conditioned points (error scale > 1e8), where each side is still compared with the reference; C++ via the stand-in; <=4 states.",
    },
    {
        "property_id": "C10",
        "cpp": True,
        "technique": "property-based testing (Hypothesis) with a validity predicate over recorded step schedules: real Python runtime and real ManagedFilter.h under recording filters; near-integer, backwards and zero moves generated by construction",
        "text": "Hundreds of thousands of generated moves (start, target = start + q*max_dt with adversarial q, 12 max_dt values, tick sequences with readings) through both runtimes; every recorded prediction step must point in the direction of travel, be no longer than max_dt, and the steps must sum to the time difference within 1e-9; no step at equal times. Many schedules are valid, so the oracle is a predicate, not one expected schedule. Exploration.",
        "note": "C++ max_dt_sec is compile-time: 12 values per run (4 fixed + 8 derived from the seed); recording Impl mirrors exactly the generated filter's call signatures; |t| <= 1e4.",
    },
    {
        "property_id": "C11",
        "cpp": True,
        "technique": "model-based property-based testing (Hypothesis): generated tick histories against a ten-line reference fold, token-chained recording filters in both runtimes, read-only-tick insertion metamorphic relation, value-level replay on real generated EKFs, fixed negative-compile programs",
        "text": "Generated histories with unordered reading timestamps through the real Python and C++ runtimes; the recorded calls (with data-flow tokens) must be exactly the reference fold, both runtimes must issue the same collapsed trace, inserting read-only ticks must not change later results, a real nonlinear EKF ticked through the runtime must equal the by-hand fold bit-for-bit using the schedule the runtime reported, and control-required misuse must be refused (TypeError / compile error). Exploration.",
        "note": "Prediction schedules compared up to the C10 predicate; recording Impl stands in for generated C++ filters at trace level (C12 covers generated ones).",
    },
    {
        "property_id": "C12",
        "cpp": True,
        "technique": "compile-and-run differential property-based testing: all 16 control x calibration x #sensors configurations enumerated, generated filters per configuration driven through the real ManagedFilter.h and replayed by hand in the same binary",
        "text": "For every configuration (exhaustive) and generated models/sensors/histories, the generated filter must satisfy ManagedFilter<>::compatible, all tick overloads and wrap() must compile, and each tick's result must be bit-identical to calling process_model / reading.sensor_model by hand in the prescribed order with the runtime's own step schedule. Exploration over programs; configurations exhaustive.",
        "note": "Compiled with g++ 12 against the stand-in; by-hand replay takes the runtime's reported step schedule (its validity is C10).",
    },
    {
        "property_id": "C09",
        "technique": "property-based testing over operation sequences (Hypothesis-drawn histories of predict / predict-back / update, shrunk as one value) with a covariance-validity invariant after every step",
        "text": "Generated histories of up to 60 filter steps on Euler-form models, exactly-correlated (singular-Jacobian) templates and the project's mass/z/v/a example, from SPD and exactly rank-deficient initial covariances; after every step the filter must not have refused the covariance and the returned covariance must be symmetric and PSD relative to its magnitude. Exploration.",
        "note": "Histories are drawn as operation lists (equivalent to a rule-based machine with one filter per run, but directly replayable); noise and eigenvalue ranges bounded; numpy eigvalsh decides PSD; invariant is strictly inside what the filter's own gate admits.",
    },
    {
        "property_id": "C13",
        "cpp": True,
        "technique": "metamorphic property-based testing (Hypothesis): bijective renaming + re-declaration twins in Python and compiled C++, plus an API-level binding check of every named container",
        "text": "Named containers are driven with generated subsets of named values (binding, defaults, unknown-name and wrong-shape rejection); every generated definition is compared with a twin whose symbols and readings are renamed to fresh adversarially-sorting identifiers, re-declared in another order and container, requiring identical named outputs from the Python filter and from the compiled generated C++. Exploration; C++ twins sampled.",
        "note": "Twins compared with each other at rounding-level tolerance; identifier-safe target names; sensor keys are not renamed.",
    },
    {
        "property_id": "C14",
        "category": "fault_enumeration",
        "technique": "fault injection over generated valid definitions: every single structural fault of 17+ classes at every applicable position (enumerated) and generated fault pairs, against all five definition/compile entry points",
        "text": "For each generated valid definition: all five entry points must accept it (C++ ones must write files); then each listed structural fault is injected alone at every position where it applies (plus generated pairs) and ui.Model or every compile entry point the fault is visible to must raise, return nothing and leave no header/source. Fault positions are enumerated completely per base definition; base definitions are explored.",
        "note": "'Refused' means any exception; each fault is constructed to be the only structural problem of the definition; small base definitions (<=3 states, <=2 sensors).",
    },
    {
        "property_id": "C15",
        "cpp": True,
        "technique": "metamorphic property-based testing across processes: generated definitions and re-declared variants generated in child interpreters under different PYTHONHASHSEED values, comparing sha256 of header/source and the Python layout",
        "text": "Batches of generated definitions and their re-declared variants (permuted order, set<->list, reversed dict insertion) are generated by child interpreters with different hash seeds; all header/source hashes and Python layouts of a definition must be identical across seeds, variants and repeated generation. The run measures that the raw set iteration order really differed between children. Exploration; hash seeds sampled.",
        "note": "4 (quick) / 24 (thorough) hash seeds; a leak that needs one specific seed can be missed.",
    },
    {
        "property_id": "C16",
        "technique": "property-based testing (Hypothesis): generated estimators x data matrices; transform vs the exported filter run by hand and vs an independent mpmath EKF fold; score decomposition, purity and repeatability invariants",
        "text": "Generated small estimators and data matrices: transform must equal (1e-12) the NIS obtained by driving export_python() by hand in the documented order and (first rows) an independent mpmath EKF that slices columns by name; non-negativity; mahalanobis = flattened transform; score = documented weighted combination (also with sample_weight); get_params unchanged by every call; repeated calls bit-identical. Exploration.",
        "note": "Models without division by state/control symbols (adapter starts at the zero state); independent reference compared on the first three rows only because the fold amplifies rounding row by row.",
    },
    {
        "property_id": "C17",
        "technique": "property-based testing (Hypothesis): round-trip / single-field-change checks over every Config field, flatten round-trip, and generated fits judged by an outcome predicate",
        "text": "Generated estimators: get-then-set, clone, set_params(field) for every Config field (exactly that field changes), unknown names refused, noise flatten/unflatten round-trip; generated training matrices: fit must end in MinimizationFailure or return the same estimator with unchanged model/sensors/calibration/config, identical noise key sets, finite magnitudes and positive process noise; any other exception is a violation. Exploration.",
        "note": "Explicit Config only (the property's quantifier); small models and 6..24 training rows to bound the cost of a fit; data with undefined initial score are skipped and counted.",
    },
    {
        "property_id": "C18",
        "technique": "model-based property-based testing: exhaustive (start, target) search pairs against an own BFS; generated transition sequences with history invariants; generated hyper-parameter grids and data through real fits",
        "text": "All (start state, target) pairs incl. non-StateId targets are enumerated against an independent BFS over the declared graph (validity + minimal length, ValueError otherwise); generated transition sequences check history, immutability of earlier histories and that only declared transitions exist; generated grids/data: too-small data refused with ModelFitError, successful fits select every governed config field from its grid list, exported filter carries the selected values, path from search reaches Fit_Model. Exploration; search sub-domain exhaustive.",
        "note": "Grids of <=4 candidates over a small fixed model; fit outcomes other than success/too-small are counted, not judged.",
    },
    {
        "property_id": "C19",
        "technique": "property-based testing (Hypothesis): generated orientations (non-unit too), biases, gravity, dt and IMU samples against hand-written Hamilton-product kinematics in mpmath; symbolic expressions and compiled model (CSE on/off)",
        "text": "Generated points compared with an independent quaternion-kinematics oracle for every state of the reference strapdown model, both for the symbolic expressions (sympy evalf at named inputs) and for the compiled Python model with CSE on and off. Exploration.",
        "note": "Quaternion norms in [0.3,3]; bounded input boxes; tolerance 1e-9*abs-scale.",
    },
]

_PENDING = "check not built yet in this revision of /verif (planned in DESIGN.md section 6)"
NOT_APPLICABLE = [
    {"property_id": f"C{i:02d}", "reason": _PENDING}
    for i in range(1, 20)
    if f"C{i:02d}" not in {c["property_id"] for c in CHECKS}
]
