#!/bin/bash
# tools/mut.sh <patch.diff> <ID> [<ID>...]  — apply a patch to a scratch worktree of /repo (never /repo itself),
# run the quick checks against it with outputs redirected to a scratch dir, print the verdicts, clean up.
set -u
PATCH="$(readlink -f "$1")"; shift
W=$(mktemp -d /tmp/formak_mut.XXXXXX)
OUT=$(mktemp -d /tmp/formak_mutout.XXXXXX)
git -C /repo worktree add -q --detach "$W/repo" HEAD || exit 2
if ! git -C "$W/repo" apply "$PATCH"; then echo "PATCH DOES NOT APPLY"; git -C /repo worktree remove --force "$W/repo"; rm -rf "$W" "$OUT"; exit 2; fi
cd "$(dirname "$0")/.."
for id in "$@"; do
  FORMAK_REPO="$W/repo" VERIF_OUT="$OUT" timeout 1500 ./check "$id" "${TIER:-quick}" > "$OUT/$id.log" 2>&1
  rc=$?
  echo "== $id exit=$rc $(grep -m1 -A1 '^VIOLATION' "$OUT/$id.log" | tr '\n' ' ' | cut -c1-300)"
  [ -n "${VERBOSE:-}" ] && tail -20 "$OUT/$id.log"
done
git -C /repo worktree remove --force "$W/repo"; rm -rf "$W" "$OUT"
git -C /repo worktree prune
