#!/bin/bash
# tools/seedapply.sh — every seeded/*/patch.diff must apply to /repo HEAD (run after a fix: commit; re-base what does not)
W=$(mktemp -d /tmp/formak_sa.XXXXXX); git -C /repo worktree add -q --detach "$W/repo" HEAD || exit 2
bad=0
for s in /verif/seeded/*/patch.diff; do
  git -C "$W/repo" apply --check "$s" 2>/dev/null || { echo "DOES NOT APPLY: $s"; bad=$((bad+1)); }
done
git -C /repo worktree remove --force "$W/repo"; rm -rf "$W"; git -C /repo worktree prune
echo "patches that do not apply: $bad"; [ $bad = 0 ]
