#!/venv/bin/python
"""Writes /verif/MANIFEST.json from the table below and validates it (if jsonschema is importable)."""
import json, os, sys
VERIF = os.path.dirname(os.path.dirname(os.path.abspath(__file__)))
sys.path.insert(0, VERIF)
from tools.manifest_table import CHECKS, NOT_APPLICABLE  # noqa: E402

BASE = "cd /repo && /venv/bin/python -m pytest -ra -q -p no:cacheprovider --timeout=900 --continue-on-collection-errors"
doc = {
    "version": 1,
    "setup_cmd": "./setup.sh",
    "hooks": {
        "guard": "FORMAK_VERIF",
        "enable": "no hooks or instrumentation are needed: every check imports /repo/py (and reads /repo/cpp headers) from the current working tree at run time",
        "baseline_off_cmd": BASE,
        "source_commits": [],
        "add_only": True,
    },
    "engines": [
        {"name": "hypothesis", "path": "/venv/lib/python3.12/site-packages/hypothesis",
         "serves_properties": [c["property_id"] for c in CHECKS],
         "kind_free_text": "property-based testing: @given strategies and RuleBasedStateMachine, seeded from VERIF_SEED, 16 forked shards"},
        {"name": "g++ + Eigen stand-in", "path": "standin/Eigen/Dense",
         "serves_properties": [c["property_id"] for c in CHECKS if c.get("cpp")],
         "kind_free_text": "generated C++ is compiled with g++ -std=c++17 against a vendored fixed-size matrix stand-in and the repository's real headers, then run"},
    ],
    "checks": [],
    "not_applicable": NOT_APPLICABLE,
    "notes": "All checks: ./check <ID> quick|thorough ; replay: ./check <ID> --replay <file>. Exit 0 held / 1 VIOLATION / 2 harness error. known_findings.json lists genuine defects (open/fixed).",
}
for c in CHECKS:
    pid = c["property_id"]
    doc["checks"].append({
        "property_id": pid,
        "quick_cmd": f"./check {pid} quick",
        "thorough_cmd": f"./check {pid} thorough",
        "evidence_file": f"/verif/evidence/{pid}.json",
        "replay_cmd_template": f"./check {pid} --replay {{path}}",
        "engine": "hypothesis" + (" + g++" if c.get("cpp") else ""),
        "level_claimed": {"category": c.get("category", "exploration"), "text": c["text"], "design_ref": f"DESIGN.md §6 {pid}"},
        "level_note": c["note"],
        "technique": c["technique"],
    })
with open(os.path.join(VERIF, "MANIFEST.json"), "w") as fh:
    json.dump(doc, fh, indent=1)
    fh.write("\n")
print("wrote MANIFEST.json with", len(doc["checks"]), "checks;", len(NOT_APPLICABLE), "not applicable")
