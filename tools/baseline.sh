#!/bin/bash
# Run the repository's pinned baseline and compare with BASELINE.json stable_pass. Usage: tools/baseline.sh [repo]
REPO="${1:-/repo}"
OUT=$(mktemp /tmp/baseline.XXXXXX.xml)
cd "$REPO" && /venv/bin/python -m pytest -ra -q -p no:cacheprovider --timeout=900 --continue-on-collection-errors --junitxml="$OUT" >/dev/null 2>&1
/venv/bin/python - "$OUT" <<'PY'
import json, sys, xml.etree.ElementTree as ET
base = json.load(open("/root/.vp/BASELINE.json"))
want = set(base["stable_pass"])
root = ET.parse(sys.argv[1]).getroot()
passed = set()
for tc in root.iter("testcase"):
    ok = not any(ch.tag in ("failure", "error", "skipped") for ch in tc)
    name = f"{tc.get('classname')}::{tc.get('name')}"
    if ok:
        passed.add(name)
missing = sorted(want - passed)
print(f"baseline: {len(want & passed)}/{len(want)} stable tests pass; {len(passed)} pass in total")
for m in missing:
    print("  MISSING", m)
sys.exit(1 if missing else 0)
PY
rc=$?
rm -f "$OUT"
exit $rc
