#!/bin/bash
# tools/mkcorpus.sh <patch.diff> <name> <ID> [<ID>...]
# Runs the thorough tier (shrinking on, short wall) of each check against a scratch worktree carrying the patch and stores
# the first shrunk failing case as corpus/<ID>/<name>.json (a permanent regression case replayed at the start of every run).
set -u
PATCH="$(readlink -f "$1")"; NAME="$2"; shift 2
W=$(mktemp -d /tmp/formak_mc.XXXXXX); OUT=$(mktemp -d /tmp/formak_mcout.XXXXXX)
git -C /repo worktree add -q --detach "$W/repo" HEAD || exit 2
git -C "$W/repo" apply "$PATCH" || { echo "PATCH DOES NOT APPLY"; git -C /repo worktree remove --force "$W/repo"; rm -rf "$W" "$OUT"; exit 2; }
cd "$(dirname "$0")/.."
for id in "$@"; do
  FORMAK_REPO="$W/repo" VERIF_OUT="$OUT" VERIF_WALL="${VERIF_WALL:-150}" VERIF_EXAMPLES="${VERIF_EXAMPLES:-60}" VERIF_SHARDS=4 timeout 900 ./check "$id" "${TIER:-thorough}" > "$OUT/$id.log" 2>&1
  f=$(ls "$OUT"/replays/${id}_*.json 2>/dev/null | head -1)
  if [ -n "$f" ]; then
    mkdir -p "corpus/$id"
    /venv/bin/python - "$f" "corpus/$id/$NAME.json" "$NAME" <<'PY'
import json, sys
d = json.load(open(sys.argv[1]))
json.dump({"origin": sys.argv[3], "bucket_when_found": d["bucket"], "spec": d["spec"]}, open(sys.argv[2], "w"), indent=None, separators=(",", ":"))
PY
    echo "corpus/$id/$NAME.json <- $(grep -m1 'bucket' "$OUT/$id.log")"
  else
    echo "$id: no violation found for $NAME"
  fi
  rm -f "$OUT"/replays/*.json
done
git -C /repo worktree remove --force "$W/repo"; rm -rf "$W" "$OUT"; git -C /repo worktree prune
