#!/venv/bin/python
"""tools/mkpatch.py <relative file> <old text> <new text> [<file> <old> <new> ...]  -> unified diff on stdout (against /repo HEAD)"""
import difflib, subprocess, sys
args = sys.argv[1:]
out = []
for i in range(0, len(args), 3):
    f, old, new = args[i:i + 3]
    src = subprocess.run(["git", "-C", "/repo", "show", f"HEAD:{f}"], capture_output=True, text=True, check=True).stdout
    if src.count(old) != 1:
        sys.exit(f"{f}: old text occurs {src.count(old)} times")
    dst = src.replace(old, new)
    out.append("".join(difflib.unified_diff(src.splitlines(True), dst.splitlines(True), f"a/{f}", f"b/{f}")))
sys.stdout.write("".join(out))
