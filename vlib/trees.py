"""Expression-tree grammar, Hypothesis strategies, sympy builder, independent mpmath evaluator, scale bounds.

Trees are JSON lists: ["sym", name] | ["const", idx] | [op, child...] | ["pow", child, n] | ["pinv", name, n]

    E ::= sym | const | E+E | E-E | E*E | E/D | E/psym | E**2 | E**3 | psym**-1 | psym**-2
        | sin E | cos E | tanh E | atan E | exp B | sqrt D | log D | sec B | tan B
    D ::= c + E**2 (c>=1) | 2+sin E | 2+cos E | exp B      (D >= 1/e > 0.36 everywhere; >=1 for first three)
    B ::= sin E | cos E | tanh E                            (|B| <= 1)

All expressions are total and smooth on the input box.  The evaluator below never touches sympy.
"""
from __future__ import annotations

import mpmath as mp
from hypothesis import strategies as st

# constants: (python literal for sympy, mp constructor)
CONSTS = [1, 2, 3, -1, -2, 0.5, 2.5, -9.81, "1/3", 0.1, 4, -0.25, "2/7", 10]
N_CONST = len(CONSTS)  # the random leaves draw from these
# exact integers beyond a double's 53-bit mantissa, both signs (used by explicit templates only, never by random leaves):
# speed-of-light squared, powers of ten, 2**60+1 - literals a model may legitimately contain (D14 class)
BIG_FIRST = N_CONST
CONSTS = CONSTS + [10**17, -(10**17), 299792458**2, -(299792458**2), 2**60 + 1, -(2**60 + 1)]
N_BIG = len(CONSTS) - BIG_FIRST

UNARY = ("sin", "cos", "tanh", "atan")
BOUNDED = ("sin", "cos", "tanh")


def const_mp(i):
    c = CONSTS[i]
    if isinstance(c, str):
        p, q = c.split("/")
        return mp.mpf(int(p)) / mp.mpf(int(q))
    return mp.mpf(c)


def const_sympy(i):
    import sympy

    c = CONSTS[i]
    if isinstance(c, str):
        p, q = c.split("/")
        return sympy.Rational(int(p), int(q))
    return sympy.sympify(c)


# ------------------------------------------------------------------------------------------
# strategies


def leaf(syms, pool=()):
    if not syms and not pool:
        return st.builds(lambda i: ["const", i], st.integers(0, N_CONST - 1))
    if pool:
        base = leaf(syms) if syms else st.builds(lambda i: ["const", i], st.integers(0, N_CONST - 1))
        return st.one_of(base, st.sampled_from(list(pool)), st.sampled_from(list(pool)))
    return st.one_of(
        st.builds(lambda s: ["sym", s], st.sampled_from(syms)),
        st.builds(lambda s: ["sym", s], st.sampled_from(syms)),
        st.builds(lambda s: ["sym", s], st.sampled_from(syms)),
        st.builds(lambda i: ["const", i], st.integers(0, N_CONST - 1)),
    )


def exprs(syms, psyms=(), depth=3, pool=(), allow_abs2=True, allow_wrap=False):
    """Strategy for E-trees over symbol names `syms`; `psyms` are known-positive symbols (subset of syms);
    `pool` are already-built trees offered as leaves (shared sub-expressions)."""
    syms = list(syms)
    psyms = list(psyms)
    memo = {}

    def E(d):
        if d in memo:
            return memo[d]
        if d <= 0:
            s = leaf(syms, pool)
        else:
            sub = E(d - 1)
            B = st.builds(lambda f, a: [f, a], st.sampled_from(BOUNDED), sub)
            D = st.one_of(
                st.builds(lambda c, a: ["add", ["const", c], ["pow", a, 2]], st.sampled_from([0, 1, 2, 10]), sub),
                st.builds(lambda a: ["add", ["const", 1], ["sin", a]], sub),
                st.builds(lambda a: ["add", ["const", 1], ["cos", a]], sub),
                st.builds(lambda b: ["exp", b], B),
            )
            opts = [
                leaf(syms, pool),
                st.builds(lambda a, b: ["add", a, b], sub, sub),
                st.builds(lambda a, b: ["sub", a, b], sub, sub),
                st.builds(lambda a, b: ["mul", a, b], sub, sub),
                st.builds(lambda a, b: ["mul", a, b], sub, sub),
                st.builds(lambda a, b: ["div", a, b], sub, D),
                st.builds(lambda a, n: ["pow", a, n], sub, st.sampled_from([2, 2, 3])),
                st.builds(lambda f, a: [f, a], st.sampled_from(UNARY), sub),
                st.builds(lambda b: ["exp", b], B),
                st.builds(lambda b: ["sec", b], B),
                st.builds(lambda b: ["tan", b], B),
                st.builds(lambda a: ["sqrt", a], D),
                st.builds(lambda a: ["log", a], D),
                # a function composed with its inverse OUTSIDE the principal branch (heading-wrap idiom):
                # atan(tan(u)), asin(sin(u)), acos(cos(u)) are NOT u there; |abs2| = sqrt(E**2) is |E|, not E
            ]
            if allow_wrap and d == depth:  # outermost level only: sympy's simplify is slow on nested inverse-trig compositions
                # differentiating asin(sin u) / acos(cos u) costs sympy 1-2 s per Jacobian entry: filters use atan only
                kinds = ["atan"] if allow_wrap == "atan" else ["atan", "asin", "acos"]
                Bs = st.builds(lambda f, a: [f, a], st.sampled_from(BOUNDED), E(min(d - 1, 1)))  # shallow argument
                opts.append(st.builds(lambda k, b: ["wrap", k, b], st.sampled_from(kinds), Bs))
            if allow_abs2 and allow_wrap and d >= depth - 1:
                # sqrt((B - 2)**2) = 2 - B: the argument stays in [-3,-1], so the expression is smooth everywhere,
                # but a simplifier that rewrites sqrt(x**2) -> x flips its sign
                opts.append(st.builds(lambda b: ["abs2", b], st.builds(lambda f, a: [f, a], st.sampled_from(BOUNDED), E(min(d - 1, 1)))))
            if psyms:
                opts.append(st.builds(lambda a, p: ["div", a, ["sym", p]], sub, st.sampled_from(psyms)))
                opts.append(st.builds(lambda p, n: ["pinv", p, n], st.sampled_from(psyms), st.sampled_from([1, 2])))
            s = st.one_of(*opts)
        memo[d] = s
        return s

    return E(depth)


# ------------------------------------------------------------------------------------------
# builders / evaluators


def to_sympy(t, symtab=None):
    import sympy

    k = t[0]
    if k == "sym":
        if symtab is not None:
            return symtab[t[1]]
        return sympy.Symbol(t[1])
    if k == "const":
        return const_sympy(t[1])
    if k == "add":
        return to_sympy(t[1], symtab) + to_sympy(t[2], symtab)
    if k == "sub":
        return to_sympy(t[1], symtab) - to_sympy(t[2], symtab)
    if k == "mul":
        return to_sympy(t[1], symtab) * to_sympy(t[2], symtab)
    if k == "div":
        return to_sympy(t[1], symtab) / to_sympy(t[2], symtab)
    if k == "pow":
        return to_sympy(t[1], symtab) ** int(t[2])
    if k == "pinv":
        return to_sympy(["sym", t[1]], symtab) ** (-int(t[2]))
    if k == "wrap":
        c0, c1 = WRAP[t[1]]
        u = sympy.Rational(*c0) + sympy.Rational(*c1) * to_sympy(t[2], symtab)
        inner, outer = {"atan": (sympy.tan, sympy.atan), "asin": (sympy.sin, sympy.asin), "acos": (sympy.cos, sympy.acos)}[t[1]]
        return outer(inner(u))
    if k == "abs2":
        return sympy.sqrt((to_sympy(t[1], symtab) - 2) ** 2)
    if k == "ufun":  # a user-defined function supplied through Config.python_modules (Python back-end only)
        return sympy.Function("verif_sat")(to_sympy(t[1], symtab))
    f = {"sin": sympy.sin, "cos": sympy.cos, "tanh": sympy.tanh, "atan": sympy.atan, "exp": sympy.exp,
         "sqrt": sympy.sqrt, "log": sympy.log, "sec": sympy.sec, "tan": sympy.tan}[k]
    return f(to_sympy(t[1], symtab))


_MPF = {"sin": mp.sin, "cos": mp.cos, "tanh": mp.tanh, "atan": mp.atan, "exp": mp.exp, "sqrt": mp.sqrt,
        "log": mp.log, "sec": mp.sec, "tan": mp.tan}


def eval_mp(t, env):
    """Independent evaluation with mpmath (precision set by the caller via mp.workdps / mp.mp.dps)."""
    k = t[0]
    if k == "sym":
        return env[t[1]]
    if k == "const":
        return const_mp(t[1])
    if k == "add":
        return eval_mp(t[1], env) + eval_mp(t[2], env)
    if k == "sub":
        return eval_mp(t[1], env) - eval_mp(t[2], env)
    if k == "mul":
        return eval_mp(t[1], env) * eval_mp(t[2], env)
    if k == "div":
        return eval_mp(t[1], env) / eval_mp(t[2], env)
    if k == "pow":
        return eval_mp(t[1], env) ** int(t[2])
    if k == "pinv":
        return 1 / (env[t[1]] ** int(t[2]))
    if k == "wrap":
        c0, c1 = WRAP[t[1]]
        u = mp.mpf(c0[0]) / c0[1] + (mp.mpf(c1[0]) / c1[1]) * eval_mp(t[2], env)
        return {"atan": lambda v: mp.atan(mp.tan(v)), "asin": lambda v: mp.asin(mp.sin(v)), "acos": lambda v: mp.acos(mp.cos(v))}[t[1]](u)
    if k == "abs2":
        return abs(eval_mp(t[1], env) - 2)
    if k == "ufun":
        return mp.tanh(eval_mp(t[1], env)) / 2
    return _MPF[k](eval_mp(t[1], env))


# u = c0 + c1*B with |B| <= 1 stays inside an interval on which inner() is monotone and away from the points where the
# outer inverse is singular: atan(tan u), u in [1.8,4.4] = u - pi; asin(sin u), u in [1.8,4.4] = pi - u;
# acos(cos u), u in [3.5,5.9] = 2 pi - u
WRAP = {"atan": ((31, 10), (13, 10)), "asin": ((31, 10), (13, 10)), "acos": ((47, 10), (12, 10))}
INV_E = mp.mpf(1) / mp.e  # lower bound of exp(B)


def scales(t, env, pmin=0.5):
    """(s, ds): upper bounds for |value| and for |d value / d any one input| obtained by evaluating the tree
    with absolute values (no cancellation).  Used only to set tolerances."""
    k = t[0]
    if k == "sym":
        return abs(env[t[1]]), mp.mpf(1)
    if k == "const":
        return abs(const_mp(t[1])), mp.mpf(0)
    if k in ("add", "sub"):
        a, da = scales(t[1], env, pmin)
        b, db = scales(t[2], env, pmin)
        return a + b, da + db
    if k == "mul":
        a, da = scales(t[1], env, pmin)
        b, db = scales(t[2], env, pmin)
        return a * b, da * b + a * db
    if k == "div":
        a, da = scales(t[1], env, pmin)
        den = t[2]
        b, db = scales(den, env, pmin)
        lo = den_lower(den, env, pmin)
        return a / lo, da / lo + a * db / (lo * lo)
    if k == "pow":
        a, da = scales(t[1], env, pmin)
        n = int(t[2])
        return a**n, n * a ** (n - 1) * da
    if k == "pinv":
        n = int(t[2])
        v = abs(env[t[1]])
        return 1 / v**n, n / v ** (n + 1)
    # Functions of a sub-expression E with magnitude bound a: the rounding error of E is ~eps*a and passes through f with
    # factor |f'| <= L, so the error scale of f(E) is max(|f| bound, L*a) - not the bound of |f| alone (sin of an argument
    # of 1e9 is only good to 1e-7); likewise the computed derivative f'(E)*E' carries eps*a*|f''|*|E'|, hence the
    # factor max(1, a) on the derivative scale. (Thorough tier, DESIGN 10 items 23-24.)
    if k == "wrap":
        a, da = scales(t[2], env, pmin)
        return max(mp.mpf(7), 2 * a), 2 * da * max(1, a)
    a, da = scales(t[1], env, pmin)
    amp = max(mp.mpf(1), a)
    if k == "abs2":
        return max(mp.mpf(3), a), da * amp
    if k == "ufun":
        return max(mp.mpf(1), a), da * amp
    if k in ("sin", "cos", "tanh"):
        return max(mp.mpf(1), a), da * amp
    if k == "atan":
        return max(mp.mpf(2), a), da * amp
    if k == "exp":
        return mp.e * amp, mp.e * da * amp
    if k == "sec":
        return max(mp.mpf(2), 3 * a), 3 * da * amp
    if k == "tan":
        return max(mp.mpf(2), 4 * a), 4 * da * amp
    if k == "sqrt":
        lo = den_lower(t[1], env, pmin)
        return max(mp.sqrt(a), a / (2 * mp.sqrt(lo))), da / (2 * mp.sqrt(lo)) * max(1, a / lo)
    if k == "log":
        lo = den_lower(t[1], env, pmin)
        return max(mp.log(1 + a) + 1, a / lo), da / lo * max(1, a / lo)
    raise ValueError(k)


def den_lower(t, env, pmin):
    """Lower bound of a D-tree / positive symbol (by construction)."""
    if t[0] == "sym":
        return abs(env[t[1]])
    if t[0] == "exp":
        return INV_E
    if t[0] == "add" and t[1][0] == "const":
        c = const_mp(t[1][1])
        if t[2][0] == "pow":
            return c  # c + E^2 >= c >= 1
        return c - 1  # c + sin/cos >= c - 1  (c = 2)
    raise ValueError(f"not a D-tree: {t}")


def size(t):
    return 1 + sum(size(c) for c in t[1:] if isinstance(c, list))


def symbols_of(t, acc=None):
    acc = set() if acc is None else acc
    if t[0] == "sym":
        acc.add(t[1])
    elif t[0] == "pinv":
        acc.add(t[1])
    else:
        for c in t[1:]:
            if isinstance(c, list):
                symbols_of(c, acc)
    return acc


def subtrees(t):
    yield t
    for c in t[1:]:
        if isinstance(c, list):
            yield from subtrees(c)


def divisor_symbols(t, acc=None):
    """symbols used directly as divisors (E/psym, psym**-n)"""
    acc = set() if acc is None else acc
    if t[0] == "pinv":
        acc.add(t[1])
    elif t[0] == "div" and t[2][0] == "sym":
        acc.add(t[2][1])
    for c in t[1:]:
        if isinstance(c, list):
            divisor_symbols(c, acc)
    return acc
