"""known_findings.json: open findings suppress (and are reported as KNOWN-FINDING); fixed entries suppress nothing.

The file is read only; nothing is ever added at run time."""
from __future__ import annotations

import json
import os
import re

VERIF = os.path.dirname(os.path.dirname(os.path.abspath(__file__)))
_cache = None


def _load():
    global _cache
    if _cache is None:
        path = os.path.join(VERIF, "known_findings.json")
        try:
            with open(path) as fh:
                _cache = json.load(fh).get("findings", [])
        except FileNotFoundError:
            _cache = []
    return _cache


def open_entries(prop):
    return [e for e in _load() if e.get("status") == "open" and prop in e.get("properties", [e.get("property")])]


def match(prop, bucket, detail=""):
    """Return the id of the open finding that lists this failure, else None."""
    for e in open_entries(prop):
        if re.search(e["bucket_regex"], bucket) and (
            not e.get("detail_regex") or re.search(e["detail_regex"], detail, re.S)
        ):
            return e["id"]
    return None
