"""Child interpreter for C15: generate every definition of a batch and print hashes + layouts as JSON.
argv: <batch.json> <workdir>.  PYTHONHASHSEED is set by the parent."""
import hashlib
import json
import os
import sys


def main():
    batch_path, wd = sys.argv[1], sys.argv[2]
    sys.argv = sys.argv[:1]
    from vlib import cppharness as H
    from vlib import ctxmod, models

    ctxmod.import_formak()
    from formak import python

    out = {}
    items = json.load(open(batch_path))
    if os.environ.get("C15_REVERSED") == "1":
        # another generation order / history inside the process: state leaking from one generation into the next
        # (caches keyed by names) must not change any output
        items = list(reversed(items))
    for item in items:
        m = item["spec"]
        rec = {}
        try:
            tab = models.symtab(m)
            ui = models.ui_model(m, tab)
            rec["raw_state_order"] = [str(s) for s in ui.state]
            rec["raw_control_order"] = [str(s) for s in ui.control]
            import dataclasses

            from formak import cpp

            part_errors = {}
            for kind, name in (("ekf", "filter"), ("model", "model")):
                try:
                    cfg = cpp.Config(**models.cpp_config(m))  # one caller-owned Config object for both generations
                    cfg_before = dataclasses.asdict(cfg)
                    res, header, source = H.generate(m, wd, ns="gen", name=name, kind=kind, config=cfg)
                    rec[f"{kind}_header"] = hashlib.sha256(open(header, "rb").read()).hexdigest()
                    rec[f"{kind}_source"] = hashlib.sha256(open(source, "rb").read()).hexdigest()
                    rec[f"{kind}_config_unchanged"] = dataclasses.asdict(cfg) == cfg_before
                    # generating twice in one process (same Config object) must also be identical
                    res, header, source = H.generate(m, wd, ns="gen", name=name, kind=kind, config=cfg)
                    again = hashlib.sha256(open(header, "rb").read()).hexdigest() + hashlib.sha256(open(source, "rb").read()).hexdigest()
                    rec[f"{kind}_repeat_same"] = again == rec[f"{kind}_header"] + rec[f"{kind}_source"]
                except Exception as e:
                    part_errors[kind] = f"{type(e).__name__}: {e}"[:300]
            try:
                f = models.compile_py_ekf(m, common_subexpression_elimination=False)
                rec["py_layout"] = {
                    "arglist": [str(s) for s in models.compile_py_model(m, common_subexpression_elimination=False).arglist],
                    "state": [str(s) for s in f.arglist_state],
                    "control": [str(s) for s in f.arglist_control],
                    "calibration": [str(s) for s in f.arglist_calibration],
                    "readings": {k: [str(r) for r in f.sensor_models[k].readings] for k in sorted(f.sensor_models)},
                    "sensor_keys_sorted": sorted(f.sensor_models),
                }
            except Exception as e:
                part_errors["py"] = f"{type(e).__name__}: {e}"[:300]
            if part_errors:
                rec["part_errors"] = part_errors
                if not m.get("maybe_refused"):
                    rec["error"] = "; ".join(f"{k}: {v}" for k, v in sorted(part_errors.items()))[:500]
        except Exception as e:  # reported to the parent, which decides
            rec["error"] = f"{type(e).__name__}: {e}"[:500]
        out[item["id"]] = rec
    print("C15CHILD " + json.dumps(out))


if __name__ == "__main__":
    main()
