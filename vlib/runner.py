"""Runner: sharding, seeds, budgets, evidence merge, exit codes.

./check <ID> quick|thorough      -> exit 0 (held) / 1 (VIOLATION line) / 2 (harness error)
./check <ID> --replay <file>     -> same contract on a single saved case
"""
from __future__ import annotations

import concurrent.futures as cf
import glob
import hashlib
import importlib
import json
import multiprocessing as mp
import os
import sys
import time
import traceback

from . import ctxmod, findings

VERIF = os.path.dirname(os.path.dirname(os.path.abspath(__file__)))


def derive_seed(seed: int, prop: str, shard: int) -> int:
    h = hashlib.sha256(f"{seed}:{prop}:{shard}".encode()).hexdigest()
    return int(h[:8], 16)


def _load(prop: str):
    return importlib.import_module(f"props.{prop.lower()}")


def _run_shard(prop, tier, seed, shard, nshards, budget, state):
    """Executed in a forked worker. Returns a JSON-able dict."""
    t0 = time.monotonic()
    ctxmod.preload()  # no-op after the fork (done in the parent); all imports happen outside any watchdog timer
    mod = _load(prop)
    ctx = ctxmod.Ctx(
        prop=prop,
        tier=tier,
        seed=derive_seed(seed, prop, shard),
        base_seed=seed,
        shard=shard,
        nshards=nshards,
        budget=budget,
        state=state,
    )
    try:
        if True:
            # committed regression cases first, spread over the shards
            files = [] if os.environ.get("VERIF_NO_CORPUS") else sorted(glob.glob(os.path.join(VERIF, "corpus", prop, "*.json")))
            for path in [f for i, f in enumerate(files) if i % nshards == shard]:
                with open(path) as fh:
                    doc = json.load(fh)
                ctx.event("corpus_case")
                ctx.run_one(mod.case, doc["spec"] if "spec" in doc else doc)
                if ctx.violation:
                    break
        if not ctx.violation:
            mod.shard(ctx)
    except ctxmod.Violation:
        pass  # recorded in ctx.violation
    except BaseException as e:  # harness error
        ctx.harness_error = "".join(traceback.format_exception(type(e), e, e.__traceback__))[-6000:]
    out = ctx.result()
    out["wall_s"] = time.monotonic() - t0
    return out


def _merge(results):
    merged = {
        "evaluations": 0,
        "nontrivial": set(),
        "samples": [],
        "events": {},
        "skipped": {},
        "known_hits": {},
        "violations": [],
        "harness_errors": [],
        "extra": {},
    }
    for r in results:
        merged["evaluations"] += r["evaluations"]
        merged["nontrivial"].update(r["nontrivial"])
        for s in r["samples"]:
            if len(merged["samples"]) < 6:
                merged["samples"].append(s)
        for k in ("events", "skipped", "known_hits"):
            for a, b in r[k].items():
                merged[k][a] = merged[k].get(a, 0) + b
        if r.get("violation"):
            merged["violations"].append(r["violation"])
        if r.get("harness_error"):
            merged["harness_errors"].append(r["harness_error"])
        for a, b in r.get("extra", {}).items():
            if isinstance(b, (int, float)) and not isinstance(b, bool):
                merged["extra"][a] = merged["extra"].get(a, 0) + b
            elif isinstance(b, bool):
                merged["extra"][a] = merged["extra"].get(a, True) and b
            else:
                merged["extra"].setdefault(a, b)
    return merged


def write_evidence(prop, mod, tier, seed, merged, wall, nshards, budget):
    cov = {
        "evaluations": int(merged["evaluations"]),
        "distinct_nontrivial": len(merged["nontrivial"]),
        "rule": mod.RULE,
        "samples": merged["samples"],
        "classes": dict(sorted(merged["events"].items())),
        "skipped": dict(sorted(merged["skipped"].items())),
        "known_finding_hits": dict(sorted(merged["known_hits"].items())),
        "shards": nshards,
        "budget_per_shard": budget,
    }
    cov.update(merged["extra"])
    doc = {
        "property_id": prop,
        "tier": tier,
        "seed": int(seed),
        "level": getattr(mod, "LEVEL", "exploration"),
        "coverage": cov,
        "assumptions": list(getattr(mod, "ASSUMPTIONS", [])),
        "wall_s": round(wall, 2),
        "violations": len(merged["violations"]),
    }
    path = os.path.join(os.environ.get("VERIF_OUT", VERIF), "evidence", f"{prop}.json")
    os.makedirs(os.path.dirname(path), exist_ok=True)
    tmp = path + ".tmp"
    with open(tmp, "w") as fh:
        json.dump(doc, fh, indent=1, sort_keys=False, default=str)
        fh.write("\n")
    os.replace(tmp, path)
    return path


def main(argv):
    if len(argv) < 2:
        print(__doc__)
        return 2
    prop = argv[0].upper()
    mode = argv[1]
    sys.path.insert(0, VERIF)
    try:
        mod = _load(prop)
    except Exception:
        traceback.print_exc()
        print(f"HARNESS-ERROR property={prop} cannot import check module")
        return 2

    seed = int(os.environ.get("VERIF_SEED", "1") or "1")
    t0 = time.monotonic()

    replay_path = os.path.abspath(argv[2]) if mode == "--replay" and len(argv) > 2 else None  # before the chdir below
    ctxmod.preload()
    if mode == "--replay":
        path = replay_path
        with open(path) as fh:
            doc = json.load(fh)
        spec = doc["spec"] if "spec" in doc else doc
        state = mod.prepare("quick", seed) if hasattr(mod, "prepare") else None
        ctx = ctxmod.Ctx(prop=prop, tier="quick", seed=seed, base_seed=seed, shard=0, nshards=1,
                         budget={"examples": 1, "wall": 3600}, state=state, replaying=True)
        try:
            ctx.run_one(mod.case, spec)
        except ctxmod.Violation:
            pass
        finally:
            if hasattr(mod, "finish"):
                mod.finish(state)
        if ctx.violation:
            print(f"VIOLATION property={prop} replay={os.path.abspath(path)}")
            print("  bucket:", ctx.violation["bucket"])
            print("  detail:", ctx.violation["detail"][:2000])
            return 1
        for k, v in ctx.known_hits.items():
            print(f"KNOWN-FINDING: property={prop} {k} (replayed case matches a listed finding)")
        print(f"OK property={prop} replay held")
        return 0

    tier = mode
    if tier not in ("quick", "thorough"):
        print("tier must be quick|thorough")
        return 2
    tier = os.environ.get("VERIF_TIER_OVERRIDE", tier)
    budget = dict(mod.BUDGET[tier])
    nshards = int(os.environ.get("VERIF_SHARDS", budget.pop("shards", 16)))
    if os.environ.get("VERIF_EXAMPLES"):
        budget["examples"] = int(os.environ["VERIF_EXAMPLES"])
    if os.environ.get("VERIF_WALL"):
        budget["wall"] = float(os.environ["VERIF_WALL"])

    try:
        state = mod.prepare(tier, seed) if hasattr(mod, "prepare") else None
    except Exception:
        traceback.print_exc()
        print(f"HARNESS-ERROR property={prop} prepare failed")
        return 2

    results = []
    if nshards == 1 or os.environ.get("VERIF_INPROC"):
        for i in range(nshards):
            results.append(_run_shard(prop, tier, seed, i, nshards, budget, state))
    else:
        mpctx = mp.get_context("fork")
        with cf.ProcessPoolExecutor(max_workers=min(nshards, os.cpu_count() or 1), mp_context=mpctx) as ex:
            futs = [ex.submit(_run_shard, prop, tier, seed, i, nshards, budget, state) for i in range(nshards)]
            for f in futs:
                try:
                    results.append(f.result())
                except Exception as e:
                    results.append({"evaluations": 0, "nontrivial": [], "samples": [], "events": {}, "skipped": {},
                                    "known_hits": {}, "violation": None, "extra": {},
                                    "harness_error": f"worker died: {e!r}"})
    if hasattr(mod, "finish"):
        try:
            mod.finish(state)
        except Exception:
            pass
    merged = _merge(results)
    wall = time.monotonic() - t0

    try:
        ev = write_evidence(prop, mod, tier, seed, merged, wall, nshards, budget)
    except Exception:
        traceback.print_exc()
        print(f"HARNESS-ERROR property={prop} cannot write evidence")
        return 2

    for e in findings.open_entries(prop):
        n = sum(v for k, v in merged["known_hits"].items() if k == e["id"])
        print(f"KNOWN-FINDING: property={prop} {e['id']}: {e['what']} (re-observed {n}x this run)")

    print(f"{prop} {tier}: evaluations={merged['evaluations']} distinct_nontrivial={len(merged['nontrivial'])} "
          f"skipped={sum(merged['skipped'].values())} wall={wall:.1f}s evidence={ev}")
    if merged["harness_errors"]:
        for h in merged["harness_errors"][:3]:
            print("HARNESS-ERROR:\n" + h)
        if not merged["violations"]:
            return 2
    if merged["violations"]:
        for v in merged["violations"]:
            print(f"VIOLATION property={prop} replay={v['replay']}")
            print(f"  bucket: {v['bucket']}")
            print("  detail: " + v["detail"][:1500].replace("\n", "\n    "))
        return 1
    return 0


if __name__ == "__main__":
    sys.exit(main(sys.argv[1:]))
