"""Per-shard context: counters, samples, known-finding routing, Hypothesis glue, watchdog."""
from __future__ import annotations

import contextlib
import hashlib
import json
import os
import signal
import sys
import time
import traceback

from . import findings

VERIF = os.path.dirname(os.path.dirname(os.path.abspath(__file__)))
FORMAK_REPO = os.environ.get("FORMAK_REPO", "/repo")


class Violation(Exception):
    def __init__(self, bucket, detail, spec):
        super().__init__(f"{bucket}: {detail[:300]}")
        self.bucket = bucket
        self.detail = detail
        self.spec = spec


class KnownFindingHit(Exception):
    pass


class SkipCase(Exception):
    pass


class StopSearch(BaseException):
    """Raised when the phase's wall budget is used up: ends the Hypothesis search at once (BaseException subclasses
    other than SystemExit/GeneratorExit are not treated as test failures by Hypothesis). Inconclusive-but-green."""


class CaseTimeout(BaseException):
    """Raised by the SIGALRM watchdog (BaseException so library `except Exception` cannot swallow it)."""


def canon(obj) -> str:
    return json.dumps(obj, sort_keys=True, default=str)


def h12(obj) -> str:
    return hashlib.sha1(canon(obj).encode()).hexdigest()[:12]


def formak_frame(tb) -> str:
    """innermost frame inside the repository's py/formak package: 'file.py:function'"""
    where = "outside-formak"
    for fs in traceback.extract_tb(tb):
        if "/formak/" in fs.filename and "/verif/" not in fs.filename:
            where = f"{os.path.basename(fs.filename)}:{fs.name}"
    return where


class Ctx:
    def __init__(self, *, prop, tier, seed, base_seed, shard, nshards, budget, state, replaying=False):
        self.prop = prop
        self.tier = tier
        self.seed = seed
        self.base_seed = base_seed
        self.shard = shard
        self.nshards = nshards
        self.budget = budget
        self.state = state
        self.replaying = replaying
        self.examples = int(budget.get("examples", 10))
        self.wall = float(budget.get("wall", 60))
        self.deadline = time.monotonic() + self.wall
        self.phase_deadline = self.deadline
        self.evaluations = 0
        self.nontrivial_set = set()
        self.samples = []
        self.events = {}
        self.skipped = {}
        self.known_hits = {}
        self.violation = None
        self.harness_error = None
        self.extra = {}
        self._case_fn = None
        self._last_violation = None

    # ---- bookkeeping -------------------------------------------------------------
    def out_of_time(self) -> bool:
        return time.monotonic() > min(self.deadline, self.phase_deadline)

    def count(self, n=1):
        self.evaluations += n

    def event(self, label, n=1):
        self.events[label] = self.events.get(label, 0) + n

    def skip(self, reason):
        self.skipped[reason] = self.skipped.get(reason, 0) + 1
        raise SkipCase(reason)

    def note_skip(self, reason):
        self.skipped[reason] = self.skipped.get(reason, 0) + 1

    def nontrivial(self, obj):
        self.nontrivial_set.add(obj if isinstance(obj, str) and len(obj) == 12 else h12(obj))

    def sample(self, obj, limit=3):
        if len(self.samples) < limit:
            self.samples.append(json.loads(canon(obj)))

    def add_extra(self, key, val):
        if isinstance(val, bool):
            self.extra[key] = self.extra.get(key, True) and val
        elif isinstance(val, (int, float)):
            self.extra[key] = self.extra.get(key, 0) + val
        else:
            self.extra[key] = val

    # ---- failures ----------------------------------------------------------------
    def fail(self, bucket: str, detail: str, spec):
        """A property clause failed. Listed open finding -> counted, case abandoned; else Violation."""
        fid = findings.match(self.prop, bucket, detail)
        if fid is not None:
            self.known_hits[fid] = self.known_hits.get(fid, 0) + 1
            raise KnownFindingHit(fid)
        raise Violation(bucket, detail, spec)

    @contextlib.contextmanager
    def formak(self, clause: str, spec, *, allow=()):
        """Run code of the system under test; an exception there is a violation of `clause`.

        allow: exception types that are part of the documented contract for this call."""
        try:
            yield
        except (Violation, KnownFindingHit, SkipCase, CaseTimeout):
            raise
        except allow:
            raise
        except Exception as e:
            where = formak_frame(e.__traceback__)
            tb = "".join(traceback.format_exception(type(e), e, e.__traceback__))[-2500:]
            self.fail(f"{clause}:raised:{type(e).__name__}@{where}", tb, spec)

    # ---- watchdog ----------------------------------------------------------------
    @contextlib.contextmanager
    def watchdog(self, seconds: float, reason="generation-timeout"):
        def handler(signum, frame):
            raise CaseTimeout(reason)

        if self.tier == "quick":
            # a pathological sympy simplify must not dominate the quick tier: cap pure generation, keep the others
            seconds = min(seconds, 12.0) if reason == "generation-timeout" else (min(seconds, 30.0) if reason.startswith("cpp") else seconds)
        old = signal.signal(signal.SIGALRM, handler)
        # re-fires every 0.5 s: a first exception swallowed in a destructor/callback must not disarm the watchdog
        signal.setitimer(signal.ITIMER_REAL, seconds, 0.5)
        try:
            yield
        except CaseTimeout:
            signal.setitimer(signal.ITIMER_REAL, 0)
            self.skipped[reason] = self.skipped.get(reason, 0) + 1
            raise SkipCase(reason)
        finally:
            signal.setitimer(signal.ITIMER_REAL, 0)
            signal.signal(signal.SIGALRM, old)

    # ---- running cases -----------------------------------------------------------
    def run_one(self, case_fn, spec):
        """Run one case. Returns normally on pass / known finding / skip; records & raises Violation."""
        try:
            self.count()
            case_fn(spec, self)
        except KnownFindingHit:
            return "known"
        except SkipCase:
            return "skip"
        except Violation as v:
            self._record_violation(v)
            raise
        return "ok"

    def _record_violation(self, v: Violation):
        root = os.environ.get("VERIF_OUT", VERIF)
        os.makedirs(os.path.join(root, "replays"), exist_ok=True)
        path = os.path.join(root, "replays", f"{self.prop}_seed{self.base_seed}_shard{self.shard}.json")
        if self.replaying:
            path = "(replay)"
        else:
            with open(path, "w") as fh:
                json.dump({"property": self.prop, "bucket": v.bucket, "detail": v.detail, "spec": v.spec},
                          fh, indent=1, default=str)
        self.violation = {"bucket": v.bucket, "detail": v.detail, "replay": path}

    def run_given(self, strategy, case_fn, *, examples=None, label=None, share=None):
        """Hypothesis search: draw spec from `strategy`, run case_fn(spec, ctx).

        share: fraction of the shard's wall budget this phase may use (so that a cheap, high-count phase cannot
        starve the phases after it); None = whatever is left."""
        self.phase_deadline = self.deadline if share is None else min(self.deadline, time.monotonic() + share * self.wall)
        import hypothesis
        from hypothesis import HealthCheck, Phase, given, settings

        n = self.examples if examples is None else examples
        phases = [Phase.explicit, Phase.generate, Phase.target]
        if self.tier == "thorough":
            phases.append(Phase.shrink)
        sett = settings(
            max_examples=max(1, n),
            database=None,
            deadline=None,
            derandomize=False,
            report_multiple_bugs=False,
            phases=phases,
            # a health check is advice about the generator, never a verdict about the code under test (thorough C15 with six
            # definitions per case overran Hypothesis' entropy buffer often enough to trip filter_too_much: exit 2)
            suppress_health_check=list(HealthCheck),
            print_blob=False,
        )
        ctx = self

        @hypothesis.seed(self.seed ^ (hash_label(label) if label else 0))
        @sett
        @given(strategy)
        def test(spec):
            if ctx.out_of_time():
                ctx.events["budget_wall_hit"] = ctx.events.get("budget_wall_hit", 0) + 1
                raise StopSearch()
            try:
                ctx.count()
                case_fn(spec, ctx)
            except KnownFindingHit:
                return
            except SkipCase:
                return
            except Violation as v:
                ctx._last_violation = v  # kept in case the wall budget ends the search while Hypothesis is shrinking
                raise

        self._last_violation = None
        try:
            test()
        except StopSearch:
            if self._last_violation is not None:
                # budget used up during shrinking: report the smallest failing case seen so far
                self._record_violation(self._last_violation)
                raise self._last_violation
        except Violation as v:
            self._record_violation(v)
            raise

    def run_machine(self, machine_cls, *, examples=None, steps=30, label=None):
        """Hypothesis stateful search. machine_cls must take its ctx from class attribute `ctx`."""
        import hypothesis
        from hypothesis import HealthCheck, Phase, settings
        from hypothesis.stateful import run_state_machine_as_test

        n = self.examples if examples is None else examples
        phases = [Phase.explicit, Phase.generate, Phase.target]
        if self.tier == "thorough":
            phases.append(Phase.shrink)
        sett = settings(
            max_examples=max(1, n),
            stateful_step_count=steps,
            database=None,
            deadline=None,
            derandomize=False,
            report_multiple_bugs=False,
            phases=phases,
            suppress_health_check=[HealthCheck.too_slow, HealthCheck.data_too_large,
                                   HealthCheck.large_base_example, HealthCheck.filter_too_much],
            print_blob=False,
        )
        machine_cls.ctx = self
        seeded = hypothesis.seed(self.seed ^ (hash_label(label) if label else 0))(machine_cls)
        try:
            run_state_machine_as_test(seeded, settings=sett)
        except Violation as v:
            self._record_violation(v)
            raise

    def result(self):
        return {
            "evaluations": self.evaluations,
            "nontrivial": sorted(self.nontrivial_set),
            "samples": self.samples,
            "events": self.events,
            "skipped": self.skipped,
            "known_hits": self.known_hits,
            "violation": self.violation,
            "harness_error": self.harness_error,
            "extra": self.extra,
        }


def hash_label(label: str) -> int:
    return int(hashlib.sha256(label.encode()).hexdigest()[:8], 16)


def import_formak():
    """Put the repository under test on sys.path (current working tree) and chdir for jinja templates."""
    p = os.path.join(FORMAK_REPO, "py")
    if p not in sys.path:
        sys.path.insert(0, p)
    os.chdir(FORMAK_REPO)


_preloaded = False


def preload():
    """Import the code under test and the heavy third-party modules ONCE, outside any watchdog timer (in the parent before
    the shards are forked, and again as a no-op at shard start). A SIGALRM that fires in the middle of an import leaves a
    half-initialised module in sys.modules, and every later case of that shard then fails in the import machinery
    (seen under heavy machine load: matplotlib's KeyError reported as a FormaK failure — DESIGN §10 item 21)."""
    global _preloaded
    if _preloaded:
        return
    import_formak()
    import importlib

    for name in ("mpmath", "numpy", "sympy", "scipy.optimize", "scipy.linalg", "matplotlib.pyplot", "sklearn.base",
                 "sklearn.model_selection", "formak.exceptions", "formak.common", "formak.ui", "formak.python",
                 "formak.cpp", "formak.runtime", "formak.ui_state_machine"):
        try:
            importlib.import_module(name)
        except Exception:  # a tree that cannot be imported is reported by the case that needs the module
            pass
    _preloaded = True
