"""Reference model: mpmath evaluation of the generator's own trees, central-difference Jacobians, textbook EKF.

Nothing here calls sympy or FormaK."""
from __future__ import annotations

import mpmath as mp

from . import trees as T

DPS = 60
H = mp.mpf(10) ** -20
RTOL = 1e-9


def env_of(spec, point):
    env = {n: mp.mpf(v) for n, v in point.items()}
    for k, v in spec["calib_values"].items():
        env[k] = mp.mpf(v)
    return env


def amplification(spec, point):
    """largest error scale (trees.scales) of any state update or sensor reading at `point`: above ~1e8 the float64 results
    of BOTH configurations are only good to 1e-10*that, so a direct on-vs-off comparison at 1e-7 says nothing; each side is
    still compared with the reference at its own, conditioning-aware tolerance."""
    with mp.workdps(30):
        env = env_of(spec, point)
        worst = mp.mpf(1)
        for t in list(spec["trees"].values()) + [t for rs in spec["sensors"].values() for t in rs.values()]:
            try:
                s_, ds_ = T.scales(t, env)
            except Exception:
                continue
            worst = max(worst, s_, ds_)
        return float(worst)


def ref_model(spec, point):
    """{state name: (value mpf, scale float)}"""
    with mp.workdps(DPS):
        env = env_of(spec, point)
        out = {}
        for s in spec["state"]:
            t = spec["trees"][s]
            out[s] = (eval_tree(t, env), float(T.scales(t, env)[0]))
        return out


def eval_tree(t, env):
    return T.eval_mp(t, env)


def ref_jac(trees_by_row, wrt, env):
    """{(row, col): (d row / d col as mpf, dscale float)} by central differences at 60 digits (h = 1e-20)."""
    out = {}
    with mp.workdps(DPS):
        for r, t in trees_by_row.items():
            s, ds = T.scales(t, env)
            present = T.symbols_of(t)
            for c in wrt:
                if c not in present:
                    out[(r, c)] = (mp.mpf(0), float(ds))
                    continue
                e1 = dict(env)
                e2 = dict(env)
                e1[c] = env[c] + H
                e2[c] = env[c] - H
                out[(r, c)] = ((T.eval_mp(t, e1) - T.eval_mp(t, e2)) / (2 * H), float(ds))
    return out


def close(got, ref, scale, rtol=RTOL):
    """float64 `got` accepted iff |got-ref| <= rtol*max(1, scale)"""
    try:
        g = mp.mpf(float(got))
    except Exception:
        return False
    if not mp.isfinite(g):
        return False
    return abs(g - ref) <= rtol * max(1.0, scale)


def jac_matrix(spec, rows, row_trees, cols, env):
    """mp.matrix of d rows / d cols plus elementwise dscale (python floats)"""
    j = ref_jac({r: row_trees[r] for r in rows}, cols, env)
    Mx = mp.matrix(len(rows), len(cols))
    S = [[1.0] * len(cols) for _ in rows]
    for i, r in enumerate(rows):
        for k, c in enumerate(cols):
            Mx[i, k] = j[(r, c)][0]
            S[i][k] = j[(r, c)][1]
    return Mx, S


def mp_from_np(a):
    rows, cols = a.shape
    m = mp.matrix(rows, cols)
    for i in range(rows):
        for j in range(cols):
            m[i, j] = mp.mpf(float(a[i, j]))
    return m


def absmat(m):
    r = mp.matrix(m.rows, m.cols)
    for i in range(m.rows):
        for j in range(m.cols):
            r[i, j] = abs(m[i, j])
    return r


def _maxmat(a, bound):
    """elementwise max of an mp.matrix and a same-shaped nested list of floats"""
    out = mp.matrix(a.rows, a.cols)
    for i in range(a.rows):
        for j in range(a.cols):
            out[i, j] = max(a[i, j], mp.mpf(bound[i][j]))
    return out


def ref_predict(spec, point, P, names=None):
    """Textbook prediction.  P is an mp.matrix laid out by sorted state name.
    Returns (x' dict, P' mp.matrix, scale matrix (abs-value bound), G, V)."""
    with mp.workdps(DPS):
        env = env_of(spec, point)
        st = sorted(spec["state"])
        ct = sorted(spec["control"])
        G, Sg = jac_matrix(spec, st, spec["trees"], st, env)
        n = len(st)
        Pn = G * P * G.T
        # tolerance scale: the cancellation-free bounds of the Jacobian entries (dscale), not their values — where an entry
        # is small by cancellation (cos u ~ 0 at u ~ 1e6) its floating-point error is still eps*|u|*|u'|, and
        # dP' = dG P G^T + G P dG^T inherits it (found by the thorough tier: rel. 3e-8 on a shrunk sin((a+9.81)**6))
        aG = _maxmat(absmat(G), Sg)
        scale = aG * absmat(P) * aG.T
        V = mp.matrix(n, len(ct))
        if ct:
            V, Sv = jac_matrix(spec, st, spec["trees"], ct, env)
            Mn = mp.matrix(len(ct), len(ct))
            for i, c in enumerate(ct):
                Mn[i, i] = mp.mpf(spec["process_noise"][c])
            Pn = Pn + V * Mn * V.T
            aV = _maxmat(absmat(V), Sv)
            scale = scale + aV * Mn * aV.T
        x = {s: T.eval_mp(spec["trees"][s], env) for s in st}
        return x, Pn, scale, G, V


def ref_update(spec, key, state_point, P, z):
    """Textbook Kalman update for sensor `key`.  state_point: {state name: float}; P mp.matrix by sorted state;
    z: {reading: float}.  Returns dict with x+, P+, y, S, H, K, nis, scales."""
    with mp.workdps(DPS):
        env = env_of(spec, state_point)
        st = sorted(spec["state"])
        rd = sorted(spec["sensors"][key])
        trees = spec["sensors"][key]
        Hm, Sh = jac_matrix(spec, rd, trees, st, env)
        Q = mp.matrix(len(rd), len(rd))
        for i, r in enumerate(rd):
            Q[i, i] = mp.mpf(spec["sensor_noises"][key][r])
        S = Hm * P * Hm.T + Q
        Sinv = S ** -1
        K = P * Hm.T * Sinv
        hx = mp.matrix([T.eval_mp(trees[r], env) for r in rd])
        y = mp.matrix([mp.mpf(z[r]) for r in rd]) - hx
        x = mp.matrix([env[s] for s in st])
        xn = x + K * y
        Pn = P - K * Hm * P
        nis = (y.T * Sinv * y)[0, 0]
        aH, aP, aK = _maxmat(absmat(Hm), Sh), absmat(P), absmat(K)  # H by its cancellation-free bound (see ref_predict)
        return {
            "x": xn, "P": Pn, "y": y, "S": S, "H": Hm, "K": K, "nis": nis, "hx": hx, "Sinv": Sinv,
            "S_scale": aH * aP * aH.T + Q,
            "P_scale": aP + aK * aH * aP,
            "x_scale": absmat(x) + aK * absmat(y),
        }


def mat_close(got_np, ref_mp, scale_mp, rtol=RTOL, floor=1.0):
    """elementwise |got-ref| <= rtol*max(floor, scale). Returns (ok, worst (i,j,got,ref))"""
    worst = None
    ok = True
    for i in range(ref_mp.rows):
        for j in range(ref_mp.cols):
            g = float(got_np[i, j])
            sc = max(floor, float(scale_mp[i, j]))
            if not (abs(mp.mpf(g) - ref_mp[i, j]) <= rtol * sc) or g != g:
                ok = False
                worst = (i, j, g, float(ref_mp[i, j]))
    return ok, worst
