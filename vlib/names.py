"""Name strategies.  Sound domain by construction: reserved words are mapped away, never filtered."""
from __future__ import annotations

import keyword
import os

from hypothesis import strategies as st

CPP_KEYWORDS = set("""alignas alignof and and_eq asm auto bitand bitor bool break case catch char char8_t char16_t
char32_t class compl concept const consteval constexpr constinit const_cast continue co_await co_return co_yield
decltype default delete do double dynamic_cast else enum explicit export extern false float for friend goto if inline
int long mutable namespace new noexcept not not_eq nullptr operator or or_eq private protected public register
reinterpret_cast requires return short signed sizeof static static_assert static_cast struct switch template this
thread_local throw true try typedef typeid typename union unsigned using virtual void volatile wchar_t while xor
xor_eq final override""".split())
# names FormaK itself emits in the same C++ scopes, libc/libm names reachable from the generated code, macros
FORMAK_EMITTED = set("""dt state control calibration reading data rows cols DataT options jacobian covariance impl
size model sensor_model process_model Identifier innovations innovation mu Sigma H G V M next_state next_covariance
kalman_gain S_inv sensor_estimate_covariance reading_est State Control Calibration Covariance StateAndVariance
SensorId Model Tag ExtendedKalmanFilter ExtendedKalmanFilterProcessModel StampedReadingBase StateOptions
ControlOptions CalibrationOptions CovarianceT ProcessJacobianT ControlJacobianT ProcessModel ReadingT InnovationT
KalmanGainT SensorJacobianT SensorModel cpp Config Eigen std formak main""".split())
LIBM = set("""sin cos tan asin acos atan atan2 sinh cosh tanh exp exp2 log log2 log10 sqrt cbrt pow fabs abs floor ceil
fmin fmax fmod erf erfc gamma tgamma lgamma hypot round trunc j0 j1 jn y0 y1 yn div index signgam time clock
printf scanf puts exit abort free malloc rand E I N O Q S pi nan inf NAN INFINITY NULL EOF M_PI M_E""".split())
PY_SPECIAL = set(keyword.kwlist) | set(keyword.softkwlist) | {"_data", "self", "cls", "lambda", "None", "True",
                                                                 "False", "print", "numpy", "math", "scipy", "sec"}
RESERVED = CPP_KEYWORDS | FORMAK_EMITTED | LIBM | PY_SPECIAL

_FIRST = "abcdefghijklmnopqrstuvwxyzABCDEFGHIJKLMNOPQRSTUVWXYZ"
_REST = _FIRST + "0123456789_"


def _fix(name: str) -> str:
    # constructive repair: never a reserved word, never a CSE temporary `_t<digits>`, no double underscore
    while "__" in name:
        name = name.replace("__", "_")
    if name in RESERVED:
        name = name + "_q"
    return name


# adversarial shapes for the sort order: mixed case, digit runs, shared prefixes
_SEEDS = ["a", "b", "x", "y", "z", "v", "v_", "v0", "vel", "x1", "x10", "x2", "X", "Z", "aa", "aB", "Ab", "a_", "a0",
          "pos", "pos_x", "posX", "q", "w", "m", "k1", "k10", "k2", "th", "Th", "t"]


def ident():
    raw = st.one_of(
        st.sampled_from(_SEEDS),
        st.builds(lambda a, b: a + b, st.sampled_from(_FIRST), st.text(_REST, min_size=0, max_size=5)),
        st.builds(lambda a, b: a + b, st.sampled_from(_SEEDS), st.text(_REST, min_size=1, max_size=3)),
    )
    return raw.map(_fix)


def ident_lists(n):
    """exactly n distinct identifier-safe names"""
    return st.lists(ident(), min_size=n, max_size=n, unique=True)


_GREEK = ["alpha", "beta", "omega", "psi", "theta", "phi", "dot{\\psi}", "ddot{x}"]


# names that exist in sympy's own namespace as CONSTANTS / singletons (not functions the generated models call): a Symbol
# spelled like one of them is an ordinary symbol for FormaK's Python back-end (probed: all work), unless some code path
# sends it through a string (str -> parse_expr rebinding E to 2.718..., pi to 3.14..., I to the imaginary unit)
SYMPY_CONSTANT_NAMES = ["E", "pi", "I", "S", "N", "Q", "O", "oo", "nan", "zoo", "gamma", "beta", "zeta"]


def freeform():
    """identifier names plus LaTeX-like names of the kind the strapdown model uses (Python-only properties)"""
    latex = st.one_of(
        st.builds(lambda g, i: f"\\{g}_{{{i}}}", st.sampled_from(_GREEK), st.integers(0, 12)),
        st.builds(lambda a, b, i: f"{a}_{{{b}}}_{{{i}}}", st.sampled_from(["x", "q", "v", "a"]),
                  st.sampled_from(["A", "B", "imu", "w"]), st.integers(0, 3)),
        st.builds(lambda g: f"\\{g}", st.sampled_from(_GREEK)),
    )
    if os.environ.get("VERIF_PRE_D15"):  # only for running the checks against trees older than the D15 fix (tools)
        return st.one_of(ident(), ident(), latex)
    return st.one_of(ident(), ident(), latex, st.sampled_from(SYMPY_CONSTANT_NAMES))


def freeform_lists(n):
    return st.lists(freeform(), min_size=n, max_size=n, unique=True)


def sensor_names(n):
    """lower-case, distinct after .title()/.upper(), not colliding with emitted class names"""
    base = st.builds(lambda a, b: a + b, st.sampled_from(["s", "alt", "gps", "imu", "rng", "z", "cam", "baro"]),
                     st.text("abcdefghijklmnopqrstuvwxyz0123456789_", min_size=0, max_size=3))
    return st.lists(base.map(_fix_sensor), min_size=n, max_size=n, unique=True)


# upper-cased sensor names become enumerators: keep clear of <cmath>/<cstdio>/<cstdlib> macros (SNAN is one in glibc)
MACROS = {"SNAN", "SNANF", "SNANL", "NAN", "INFINITY", "HUGE_VAL", "HUGE_VALF", "HUGE_VALL", "EOF", "NULL", "BUFSIZ",
          "RAND_MAX", "EDOM", "ERANGE", "EILSEQ", "SEEK_SET", "SEEK_CUR", "SEEK_END", "EXIT_SUCCESS", "EXIT_FAILURE",
          "FP_NAN", "FP_ZERO", "MATH_ERRNO", "M_PI", "M_E", "I", "CHAR_BIT", "INT_MAX", "INT_MIN", "DBL_MAX", "DBL_MIN"}


def _fix_sensor(name):
    name = _fix(name)
    name = name.rstrip("_") or "s"
    if name.upper() in MACROS:
        name += "x"
    if name.title() in RESERVED or name.title() + "Options" in RESERVED:
        name += "9"
    return name
