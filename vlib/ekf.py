"""Helpers shared by the Python-filter properties: covariance strategies, input builders, targeted readings."""
from __future__ import annotations

import mpmath as mp
import numpy as np
from hypothesis import strategies as st

from . import oracle


def _f(lo, hi):
    return st.floats(min_value=lo, max_value=hi, allow_nan=False, allow_infinity=False, allow_subnormal=False)


@st.composite
def spd(draw, n, lam=(0.1, 10.0), rank=None):
    """Symmetric positive (semi-)definite n x n as nested lists: Q diag(lambda) Q^T, Q = product of two Householder
    reflections of generated vectors.  rank<n gives an exactly rank-deficient PSD matrix A A^T."""
    if n == 0:
        return []
    if rank is not None and rank < n:
        A = np.array([[draw(_f(-2, 2)) for _ in range(rank)] for _ in range(n)])
        P = A @ A.T
        return ((P + P.T) / 2).tolist()
    lams = np.array([draw(_f(*lam)) for _ in range(n)])
    Q = np.eye(n)
    for _ in range(2 if n > 1 else 0):
        v = np.array([draw(_f(-1, 1)) for _ in range(n)])
        v[0] += 1.5
        Q = Q @ (np.eye(n) - 2.0 * np.outer(v, v) / float(v @ v))
    P = Q @ np.diag(lams) @ Q.T
    return ((P + P.T) / 2).tolist()


def state_of(ekf, m, p):
    return ekf.State(**{s: p[s] for s in m["state"]})


def control_of(ekf, m, p):
    return ekf.Control(**{c: p[c] for c in m["control"]})


def cov_of(ekf, P):
    n = len(P)
    return ekf.Covariance.from_data(np.array(P, dtype=float).reshape((n, n)))


def rescale_for_sensor(m, key, p, P, factor=100.0):
    """Scale P so that ||H P H^T||_max <= factor * min(Q) (keeps cond(S) moderate); pure function of the case."""
    with mp.workdps(30):
        env = oracle.env_of(m, p)
        st_ = sorted(m["state"])
        rd = sorted(m["sensors"][key])
        Hm, _ = oracle.jac_matrix(m, rd, m["sensors"][key], st_, env)
        Pm = oracle.mp_from_np(np.array(P, dtype=float))
        HPH = Hm * Pm * Hm.T
        mx = max([abs(HPH[i, j]) for i in range(HPH.rows) for j in range(HPH.cols)] + [mp.mpf(0)])
        qmin = min(m["sensor_noises"][key].values())
        if mx > factor * qmin:
            c = float(factor * qmin / mx)
            # power of two: scaling is exact in binary floating point
            c = 2.0 ** np.floor(np.log2(c))
            return (np.array(P) * c).tolist()
    return P


def targeted_reading(m, key, p, P, direction, nis_target):
    """z = h(x) + s*L*w with S = L L^T (reference), |w| = 1, s^2 = nis_target.  Returns {reading: float}."""
    with mp.workdps(40):
        env = oracle.env_of(m, p)
        st_ = sorted(m["state"])
        rd = sorted(m["sensors"][key])
        trees = m["sensors"][key]
        Hm, _ = oracle.jac_matrix(m, rd, trees, st_, env)
        Pm = oracle.mp_from_np(np.array(P, dtype=float))
        Q = mp.matrix(len(rd), len(rd))
        for i, r in enumerate(rd):
            Q[i, i] = mp.mpf(m["sensor_noises"][key][r])
        S = Hm * Pm * Hm.T + Q
        L = mp.cholesky(S)
        w = mp.matrix([mp.mpf(d) for d in direction[: len(rd)]])
        nrm = mp.sqrt(sum(x * x for x in w))
        if nrm == 0:
            w = mp.matrix([1] + [0] * (len(rd) - 1))
            nrm = mp.mpf(1)
        w = w / nrm
        y = mp.sqrt(mp.mpf(nis_target)) * (L * w)
        from . import trees as T

        return {r: float(T.eval_mp(trees[r], env) + y[i]) for i, r in enumerate(rd)}


def threshold(k, msize):
    return k * mp.sqrt(2 * msize) + msize
