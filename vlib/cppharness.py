"""Generate C++ through FormaK's public entry points, emit a driver, compile with g++ against the Eigen stand-in,
run it and parse the output.  All values are set and read through the generated *named* accessors / Options fields;
row/column <-> name maps are discovered by the driver at run time."""
from __future__ import annotations

import contextlib
import io
import os
import shutil
import subprocess
import sys
import tempfile

from . import models
from .ctxmod import FORMAK_REPO, VERIF

CXX = os.environ.get("VERIF_CXX", "g++")
BUILD_ROOT = os.path.join(VERIF, ".cache", "build")


class CppError(Exception):
    def __init__(self, stage, text):
        super().__init__(f"{stage}: {text[:400]}")
        self.stage = stage
        self.text = text


def workdir(tag="w"):
    os.makedirs(BUILD_ROOT, exist_ok=True)
    return tempfile.mkdtemp(prefix=f"{tag}_{os.getpid()}_", dir=BUILD_ROOT)


def cleanup(d):
    shutil.rmtree(d, ignore_errors=True)


def hexf(v):
    return float(v).hex()


def generate(spec, wd, ns="gen", name="filter", kind="ekf", config=None, quiet=True):
    """Run cpp.compile / cpp.compile_ekf exactly as the Bazel genrule does (sys.argv carries the paths)."""
    from formak import cpp

    os.makedirs(os.path.join(wd, "generated", ns), exist_ok=True)
    header = os.path.join(wd, "generated", ns, f"{name}.h")
    source = os.path.join(wd, "generated", ns, f"{name}.cpp")
    tab = models.symtab(spec)
    cfg = models.cpp_config(spec) if config is None else config  # a dict, or a caller-owned cpp.Config instance
    if config is None and spec.get("config_form") == "swapped":
        cfg = cpp.Config(**cfg)
    old_argv = sys.argv
    sys.argv = ["generator.py", "--header", header, "--source", source, "--namespace", ns]
    buf = io.StringIO()
    try:
        with contextlib.redirect_stdout(buf) if quiet else contextlib.nullcontext():
            if kind == "ekf":
                res = cpp.compile_ekf(
                    models.ui_model(spec, tab),
                    models.process_noise(spec, tab),
                    models.sensor_models(spec, tab),
                    models.sensor_noises(spec),
                    models.calibration_map(spec, tab),
                    config=cfg,
                )
            else:
                res = cpp.compile(models.ui_model(spec, tab), models.calibration_map(spec, tab), config=cfg)
    finally:
        sys.argv = old_argv
    return res, header, source


def compile_cpp(wd, sources, out="prog", extra=(), timeout=180):
    cmd = [CXX, "-std=c++17", "-O0", "-w",
           "-I", os.path.join(VERIF, "standin"),
           "-I", os.path.join(FORMAK_REPO, "cpp", "include"),
           "-I", os.path.join(FORMAK_REPO, "cpp", "runtime", "include"),
           "-I", os.path.join(wd, "generated"),
           *extra, "-o", os.path.join(wd, out), *sources]
    try:
        r = subprocess.run(cmd, capture_output=True, text=True, timeout=timeout)
    except subprocess.TimeoutExpired:
        raise CppError("compile-timeout", " ".join(cmd))
    if r.returncode != 0:
        raise CppError("compile", r.stderr[-3000:])
    return os.path.join(wd, out)


def run(prog, stdin_text, timeout=60):
    try:
        r = subprocess.run([prog], input=stdin_text, capture_output=True, text=True, timeout=timeout)
    except subprocess.TimeoutExpired:
        raise CppError("run-timeout", prog)
    if r.returncode != 0:
        raise CppError("run", f"exit {r.returncode}\n{r.stderr[-1500:]}\n{r.stdout[-500:]}")
    return r.stdout


# ------------------------------------------------------------------------------------------
# EKF / Model evaluation driver


def _args(spec, state_expr="sv"):
    a = ["dt", state_expr]
    if spec["calib"]:
        a.append("cal")
    if spec["control"]:
        a.append("u")
    return ", ".join(a)


def _sargs(spec, reading="rd_", state_expr="sv"):
    a = [state_expr]
    if spec["calib"]:
        a.append("cal")
    a.append(reading)
    return ", ".join(a)


def ekf_driver_source(spec, ns="gen", name="filter", kind="ekf"):
    st_, ct, ck = sorted(spec["state"]), sorted(spec["control"]), sorted(spec["calib"])
    n, c = len(st_), len(ct)
    sens = sorted(spec["sensors"]) if kind == "ekf" else []
    L = []
    A = L.append
    A(f"#include <{ns}/{name}.h>")
    A("#include <cstdio>\n#include <cstdlib>\n#include <cstring>\n#include <cmath>")
    A(f"using namespace {ns};")
    A("static double rd() { double v; if (scanf(\"%la\", &v) != 1) { fprintf(stderr, \"bad input\\n\"); exit(3);} return v; }")
    A("template <typename M> static int find1(const M& m, int rows) { int f = -1; for (int i = 0; i < rows; ++i) if (m(i, 0) == 1.0) { if (f >= 0) return -2; f = i; } return f; }")
    A("int main() {")
    # index discovery by named accessor
    A(f"  int SI[{max(n,1)}]; int CI[{max(n,1)}]; int UI[{max(c,1)}];")
    for i, s in enumerate(st_):
        A(f"  {{ State t; t.{s}() = 1.0; SI[{i}] = find1(t.data, {n}); printf(\"idx state {i} %d\\n\", SI[{i}]); }}")
        A(f"  {{ const State t0; printf(\"dflt state {i} %a\\n\", t0.{s}()); }}")
    for i, u in enumerate(ct):
        A(f"  {{ Control t; t.{u}() = 1.0; UI[{i}] = find1(t.data, {c}); printf(\"idx control {i} %d\\n\", UI[{i}]); }}")
    if kind == "ekf":
        for i, s in enumerate(st_):
            A(f"  {{ Covariance t; for (int a = 0; a < {n}; ++a) for (int b = 0; b < {n}; ++b) t.data(a, b) = 0.0; t.{s}() = 1.0; "
              f"int f = -1; for (int a = 0; a < {n}; ++a) for (int b = 0; b < {n}; ++b) if (t.data(a, b) == 1.0) f = (a == b && f == -1) ? a : -2; "
              f"CI[{i}] = f; printf(\"idx cov {i} %d\\n\", f); }}")
        A(f"  {{ Covariance t; for (int a = 0; a < {n}; ++a) for (int b = 0; b < {n}; ++b) printf(\"dflt cov %d %d %a\\n\", a, b, t.data(a, b)); }}")
    # read access through the CONST named accessors on objects filled with distinct values
    A(f"  {{ State t; for (int a = 0; a < {n}; ++a) t.data(a, 0) = 100.0 + a; const State& c = t;")
    for i, s in enumerate(st_):
        A(f"    printf(\"cread state {i} %a\\n\", c.{s}());")
    A("  }")
    if ct:
        A(f"  {{ Control t; for (int a = 0; a < {c}; ++a) t.data(a, 0) = 200.0 + a; const Control& c = t;")
        for i, u in enumerate(ct):
            A(f"    printf(\"cread control {i} %a\\n\", c.{u}());")
        A("  }")
    if kind == "ekf":
        A(f"  {{ Covariance t; for (int a = 0; a < {n}; ++a) for (int b = 0; b < {n}; ++b) t.data(a, b) = 1000.0 + 10.0 * a + b; const Covariance& c = t;")
        for i, s in enumerate(st_):
            A(f"    printf(\"cread cov {i} %a\\n\", c.{s}());")
        A("  }")
        A("  printf(\"config innovation_filtering %a\\n\", (double)cpp::Config::innovation_filtering);")
        A("  printf(\"config max_dt_sec %a\\n\", (double)cpp::Config::max_dt_sec);")
    # Options constructors: a partially filled Options object leaves the other fields at 0
    A(f"  {{ StateOptions o; o.{st_[-1]} = 7.5; State t(o);")
    for i, s in enumerate(st_):
        A(f"    printf(\"popt state {i} %a\\n\", t.{s}());")
    A("  }")
    # Options constructors, by name
    A("  { StateOptions o;")
    for i, s in enumerate(st_):
        A(f"    o.{s} = {1.5 + i};")
    A("    State t(o);")
    for i, s in enumerate(st_):
        A(f"    printf(\"opt state {i} %a\\n\", t.{s}());")
    A("  }")
    if ct:
        A("  { ControlOptions o;")
        for i, s in enumerate(ct):
            A(f"    o.{s} = {2.5 + i};")
        A("    Control t(o);")
        for i, s in enumerate(ct):
            A(f"    printf(\"opt control {i} %a\\n\", t.{s}());")
        A("  }")
    if ck:
        A("  CalibrationOptions co;")
        for k in ck:
            A(f"  co.{k} = {hexf(spec['calib_values'][k])};")
        A("  Calibration cal(co);")
        for i, k in enumerate(ck):
            A(f"  printf(\"opt calib {i} %a\\n\", cal.{k}());")
    for si, key in enumerate(sens):
        T = key.title()
        rds = sorted(spec["sensors"][key])
        for ri, r in enumerate(rds):
            A(f"  {{ {T}Options o; o.{r} = 1.0; {T} t(o); printf(\"idx reading {si} {ri} %d\\n\", find1(t.data, {len(rds)})); "
              f"printf(\"opt reading {si} {ri} %a\\n\", t.{r}()); }}")
        A(f"  {{ {T} t; for (int a = 0; a < {len(rds)}; ++a) printf(\"dflt reading {si} %d %a\\n\", a, t.data(a, 0)); }}")
    if kind == "ekf":
        A("  ExtendedKalmanFilter ekf;")
    else:
        A("  Model mdl;")
    A("  char cmd[16]; int k = 0;")
    A("  while (scanf(\"%15s\", cmd) == 1) {")
    A("    if (cmd[0] == 'P') {")
    A("      double dt = rd();")
    if kind == "ekf":
        A("      StateAndVariance sv;")
        sref = "sv.state"
    else:
        A("      State sv;")
        sref = "sv"
    for s in st_:
        A(f"      {sref}.{s}() = rd();")
    if ct:
        A("      Control u;")
        for u in ct:
            A(f"      u.{u}() = rd();")
    if kind == "ekf":
        A(f"      for (int a = 0; a < {n}; ++a) for (int b = 0; b < {n}; ++b) sv.covariance.data(CI[a], CI[b]) = rd();")
    A("      printf(\"case %d P\\n\", k);")
    if kind == "ekf":
        PM = "ExtendedKalmanFilterProcessModel"
        A(f"      {{ State nx = {PM}::model({_args(spec)}); for (int a = 0; a < {n}; ++a) printf(\"model %d %a\\n\", a, nx.data(a, 0)); }}")
        A(f"      {{ auto J = {PM}::process_jacobian({_args(spec)}); for (int a = 0; a < {n}; ++a) for (int b = 0; b < {n}; ++b) printf(\"pj %d %d %a\\n\", a, b, J(a, b)); }}")
        A(f"      {{ auto J = {PM}::control_jacobian({_args(spec)}); for (int a = 0; a < {n}; ++a) for (int b = 0; b < {c}; ++b) printf(\"cj %d %d %a\\n\", a, b, J(a, b)); }}")
        A(f"      {{ auto J = {PM}::covariance({_args(spec)}); for (int a = 0; a < {c}; ++a) for (int b = 0; b < {c}; ++b) printf(\"pn %d %d %a\\n\", a, b, J(a, b)); }}")
        A(f"      {{ StateAndVariance r = ekf.process_model({_args(spec)}); for (int a = 0; a < {n}; ++a) printf(\"px %d %a\\n\", a, r.state.data(a, 0)); "
          f"for (int a = 0; a < {n}; ++a) for (int b = 0; b < {n}; ++b) printf(\"pP %d %d %a\\n\", a, b, r.covariance.data(a, b)); }}")
    else:
        A(f"      {{ State nx = mdl.model({_args(spec)}); for (int a = 0; a < {n}; ++a) printf(\"model %d %a\\n\", a, nx.data(a, 0)); }}")
    A("      ++k;")
    A("    }")
    for si, key in enumerate(sens):
        T = key.title()
        rds = sorted(spec["sensors"][key])
        m = len(rds)
        A(f"    else if (cmd[0] == 'S' && atoi(cmd + 1) == {si}) {{")
        A("      StateAndVariance sv;")
        for s in st_:
            A(f"      sv.state.{s}() = rd();")
        A(f"      for (int a = 0; a < {n}; ++a) for (int b = 0; b < {n}; ++b) sv.covariance.data(CI[a], CI[b]) = rd();")
        A(f"      {T}Options ro;")
        for r in rds:
            A(f"      ro.{r} = rd();")
        A(f"      {T} rd_(ro);")
        A(f"      printf(\"case %d S {si}\\n\", k);")
        A(f"      {{ {T} e = {T}SensorModel::model({_sargs(spec)}); for (int a = 0; a < {m}; ++a) printf(\"sm %d %a\\n\", a, e.data(a, 0)); }}")
        A(f"      {{ auto J = {T}SensorModel::jacobian({_sargs(spec)}); for (int a = 0; a < {m}; ++a) for (int b = 0; b < {n}; ++b) printf(\"sj %d %d %a\\n\", a, b, J(a, b)); }}")
        A(f"      {{ auto J = {T}SensorModel::covariance({_sargs(spec)}); for (int a = 0; a < {m}; ++a) for (int b = 0; b < {m}; ++b) printf(\"sc %d %d %a\\n\", a, b, J(a, b)); }}")
        A("      { ExtendedKalmanFilter e2;")
        A(f"        StateAndVariance r = e2.sensor_model({_sargs(spec)});")
        A(f"        for (int a = 0; a < {n}; ++a) printf(\"ux %d %a\\n\", a, r.state.data(a, 0));")
        A(f"        for (int a = 0; a < {n}; ++a) for (int b = 0; b < {n}; ++b) printf(\"uP %d %d %a\\n\", a, b, r.covariance.data(a, b));")
        A(f"        auto inn = e2.innovations<{T}>();")
        A("        printf(\"uyp %d\\n\", inn.has_value() ? 1 : 0);")
        A(f"        if (inn.has_value()) for (int a = 0; a < {m}; ++a) printf(\"uy %d %a\\n\", a, (*inn)(a, 0));")
        A("      }")
        A("      ++k;")
        A("    }")
    A("    else { fprintf(stderr, \"unknown cmd %s\\n\", cmd); return 4; }")
    A("  }")
    A("  return 0;")
    A("}")
    return "\n".join(L) + "\n"


def process_line(spec, point, P=None):
    st_, ct = sorted(spec["state"]), sorted(spec["control"])
    vals = [point[spec["dt"]]] + [point[s] for s in st_] + [point[u] for u in ct]
    if P is not None:
        vals += [P[i][j] for i in range(len(st_)) for j in range(len(st_))]
    return "P " + " ".join(hexf(v) for v in vals)


def sensor_line(spec, key, point, P, z):
    st_ = sorted(spec["state"])
    si = sorted(spec["sensors"]).index(key)
    vals = [point[s] for s in st_] + [P[i][j] for i in range(len(st_)) for j in range(len(st_))]
    vals += [z[r] for r in sorted(spec["sensors"][key])]
    return f"S{si} " + " ".join(hexf(v) for v in vals)


def parse(text):
    """-> (prelude dict, cases list). prelude: {'idx': {(kind, ...): int}, 'dflt': ..., 'opt': ...};
    each case: {'kind': 'P'|'S', 'sensor': si, tag: {index tuple: float}}"""
    pre = {"idx": {}, "dflt": {}, "opt": {}, "cread": {}, "config": {}, "popt": {}}
    cases = []
    cur = None
    for line in text.splitlines():
        t = line.split()
        if not t:
            continue
        if t[0] == "config":
            pre["config"][t[1]] = float.fromhex(t[2])
        elif t[0] in ("idx", "dflt", "opt", "cread", "popt"):
            key = tuple([t[1]] + [int(x) for x in t[2:-1]])
            pre[t[0]][key] = int(t[-1]) if t[0] == "idx" else float.fromhex(t[-1])
        elif t[0] == "case":
            cur = {"kind": t[2], "sensor": int(t[3]) if len(t) > 3 else None}
            cases.append(cur)
        elif t[0] == "uyp":
            cur["uyp"] = int(t[1])
        else:
            cur.setdefault(t[0], {})[tuple(int(x) for x in t[1:-1])] = float.fromhex(t[-1])
    return pre, cases


def build_and_run(spec, lines, *, kind="ekf", config=None, ns="gen", name="filter", keep=False):
    """generate + compile + run.  Returns (prelude, cases, info). Raises CppError for compile/run problems;
    exceptions from FormaK's generator propagate unchanged."""
    wd = workdir("ekf")
    try:
        res, header, source = generate(spec, wd, ns=ns, name=name, kind=kind, config=config)
        if not (res.success and os.path.exists(header) and os.path.exists(source)):
            raise CppError("generate", f"no files written: {res}")
        drv = os.path.join(wd, "driver.cpp")
        with open(drv, "w") as fh:
            fh.write(ekf_driver_source(spec, ns=ns, name=name, kind=kind))
        try:
            prog = compile_cpp(wd, [drv, source])
        except CppError as e:
            e.text += "\n--- header ---\n" + open(header).read()[-6000:] + "\n--- source ---\n" + open(source).read()[-6000:]
            raise
        out = run(prog, "\n".join(lines) + "\n")
        info = {"header": open(header).read(), "source": open(source).read()}
        pre, cases = parse(out)
        return pre, cases, info
    finally:
        if not keep:
            cleanup(wd)


# ------------------------------------------------------------------------------------------
# history driver: one generated filter, a sequence of predictions and updates, covariance printed after every step


def history_driver_source(spec, ns="gen", name="filter"):
    st_, ct, ck = sorted(spec["state"]), sorted(spec["control"]), sorted(spec["calib"])
    n = len(st_)
    sens = sorted(spec["sensors"])
    L = []
    A = L.append
    A(f"#include <{ns}/{name}.h>\n#include <cstdio>\n#include <cstdlib>")
    A(f"using namespace {ns};")
    A("static double rd() { double v; if (scanf(\"%la\", &v) != 1) exit(3); return v; }")
    A(f"static void show(const StateAndVariance& s) {{ printf(\"step\"); for (int a = 0; a < {n}; ++a) printf(\" %a\", s.state.data(a, 0)); "
      f"for (int a = 0; a < {n}; ++a) for (int b = 0; b < {n}; ++b) printf(\" %a\", s.covariance.data(a, b)); printf(\"\\n\"); }}")
    A("int main() {")
    A(f"  int SI[{n}];")
    for i, s in enumerate(st_):
        A(f"  {{ State t; t.{s}() = 1.0; SI[{i}] = -1; for (int a = 0; a < {n}; ++a) if (t.data(a, 0) == 1.0) SI[{i}] = a; }}")
    A(f"  printf(\"map\"); for (int a = 0; a < {n}; ++a) printf(\" %d\", SI[a]); printf(\"\\n\");")
    A("  StateAndVariance sv;")
    for s in st_:
        A(f"  sv.state.{s}() = rd();")
    A(f"  for (int a = 0; a < {n}; ++a) for (int b = 0; b < {n}; ++b) sv.covariance.data(SI[a], SI[b]) = rd();")
    if ck:
        A("  CalibrationOptions co;")
        for k in ck:
            A(f"  co.{k} = {hexf(spec['calib_values'][k])};")
        A("  Calibration cal(co);")
    A("  ExtendedKalmanFilter ekf; char cmd[16];")
    A("  while (scanf(\"%15s\", cmd) == 1) {")
    A("    if (cmd[0] == 'P') { double dt = rd();")
    if ct:
        A("      Control u;")
        for c in ct:
            A(f"      u.{c}() = rd();")
    A(f"      sv = ekf.process_model({_args(spec)}); show(sv); }}")
    for si, key in enumerate(sens):
        T = key.title()
        rds = sorted(spec["sensors"][key])
        A(f"    else if (cmd[0] == 'S' && atoi(cmd + 1) == {si}) {{")
        A(f"      {T} none; {T} pred = {T}SensorModel::model({_sargs(spec, reading='none')});")
        A(f"      {T}Options ro;")
        A(f"      {{ int RI[{len(rds)}];")
        for ri, r in enumerate(rds):
            A(f"        {{ {T}Options o; o.{r} = 1.0; {T} t(o); RI[{ri}] = -1; for (int a = 0; a < {len(rds)}; ++a) if (t.data(a, 0) == 1.0) RI[{ri}] = a; }}")
        for ri, r in enumerate(rds):
            A(f"        ro.{r} = pred.data(RI[{ri}], 0) + rd();")
        A("      }")
        A(f"      {T} z(ro); sv = ekf.sensor_model({_sargs(spec, reading='z')}); show(sv); }}")
    A("    else return 4;")
    A("  }")
    A("  return 0;")
    A("}")
    return "\n".join(L) + "\n"


def run_history(spec, x0, P0, ops):
    """ops: [("P", dt, {control: v}) | ("S", key, [delta per sorted reading])] -> list of (x np, P np) by sorted state name"""
    import numpy as np

    st_, ct = sorted(spec["state"]), sorted(spec["control"])
    n = len(st_)
    toks = [hexf(x0[s]) for s in st_] + [hexf(P0[i][j]) for i in range(n) for j in range(n)]
    sens = sorted(spec["sensors"])
    for op in ops:
        if op[0] == "P":
            toks += ["P", hexf(op[1])] + [hexf(op[2][c]) for c in ct]
        else:
            toks += [f"S{sens.index(op[1])}"] + [hexf(v) for v in op[2]]
    wd = workdir("hist")
    try:
        res, header, source = generate(spec, wd)
        drv = os.path.join(wd, "driver.cpp")
        with open(drv, "w") as fh:
            fh.write(history_driver_source(spec))
        prog = compile_cpp(wd, [drv, source])
        out = run(prog, " ".join(toks) + "\n")
    finally:
        cleanup(wd)
    lines = out.splitlines()
    raw = [int(v) for v in lines[0].split()[1:]]
    steps = []
    for ln in lines[1:]:
        v = [float.fromhex(t) if "n" not in t.lower() else float("nan") for t in ln.split()[1:]]
        x = np.array(v[:n])
        P = np.array(v[n:]).reshape((n, n))
        steps.append((x[raw], P[np.ix_(raw, raw)]))
    return steps
