"""Managed-filter runtime harness shared by C10 and C11: recording filters for the Python and the C++ runtime,
history strategies, the ten-line reference fold, trace utilities."""
from __future__ import annotations

import hashlib
import math
import os
import subprocess

from hypothesis import strategies as st

from . import cppharness as H
from .ctxmod import import_formak

FIXED_DT = [0.1, 0.05, 0.01, 1.0]


def dt_table(seed, n=12):
    """compile-time max_dt_sec values for the C++ recording Impl: project defaults + log-uniform values derived from the seed"""
    out = list(FIXED_DT)
    i = 0
    while len(out) < n:
        h = int(hashlib.sha256(f"maxdt:{seed}:{i}".encode()).hexdigest()[:12], 16) / float(16**12)
        v = 10 ** (-3 + 4 * h)  # 1e-3 .. 10
        out.append(float(f"{v:.6g}"))
        i += 1
    return out


DRIVER = r"""
#include <formak/runtime/ManagedFilter.h>
#include <cstdio>
#include <cstdlib>
#include <type_traits>
#include <vector>
static int g_counter = 0;
constexpr double kMaxDt[] = {@TABLE@};
struct SV { int token = 0; };
struct Cal { double c = 0; };
struct Ctl { double u = 0; };
// Each variant offers exactly the process_model / sensor_model signature a generated filter of that variant has.
template <int I, bool HasCal, bool HasCtl> struct Impl;
#define TAGBODY(HC, HU) \
  struct Tag { using StateAndVarianceT = SV; \
    using CalibrationT = std::conditional_t<HC, Cal, std::false_type>; \
    using ControlT = std::conditional_t<HU, Ctl, std::false_type>; \
    using StampedReadingBaseT = StampedReadingBase; \
    static constexpr double max_dt_sec = kMaxDt[I]; };
template <int I> struct Impl<I, true, true> {
  struct StampedReadingBase { virtual ~StampedReadingBase() = default;
    virtual SV sensor_model(const Impl&, const SV& s, const Cal&) const = 0; };
  TAGBODY(true, true)
  SV process_model(double dt, const SV& s, const Cal&, const Ctl&) const { SV o{++g_counter}; printf("p %a %d %d\n", dt, s.token, o.token); return o; }
};
template <int I> struct Impl<I, true, false> {
  struct StampedReadingBase { virtual ~StampedReadingBase() = default;
    virtual SV sensor_model(const Impl&, const SV& s, const Cal&) const = 0; };
  TAGBODY(true, false)
  SV process_model(double dt, const SV& s, const Cal&) const { SV o{++g_counter}; printf("p %a %d %d\n", dt, s.token, o.token); return o; }
};
template <int I> struct Impl<I, false, true> {
  struct StampedReadingBase { virtual ~StampedReadingBase() = default;
    virtual SV sensor_model(const Impl&, const SV& s) const = 0; };
  TAGBODY(false, true)
  SV process_model(double dt, const SV& s, const Ctl&) const { SV o{++g_counter}; printf("p %a %d %d\n", dt, s.token, o.token); return o; }
};
template <int I> struct Impl<I, false, false> {
  struct StampedReadingBase { virtual ~StampedReadingBase() = default;
    virtual SV sensor_model(const Impl&, const SV& s) const = 0; };
  TAGBODY(false, false)
  SV process_model(double dt, const SV& s) const { SV o{++g_counter}; printf("p %a %d %d\n", dt, s.token, o.token); return o; }
};
template <typename F, bool HasCal> struct Rd;
// key 2 behaves like a rejected reading: the estimate it was given comes back unchanged
template <typename F> struct Rd<F, true> : F::StampedReadingBase { int key = 0;
  SV sensor_model(const F&, const SV& s, const Cal&) const override { SV o{key == 2 ? s.token : ++g_counter}; printf("s %d %d %d\n", key, s.token, o.token); return o; } };
template <typename F> struct Rd<F, false> : F::StampedReadingBase { int key = 0;
  SV sensor_model(const F&, const SV& s) const override { SV o{key == 2 ? s.token : ++g_counter}; printf("s %d %d %d\n", key, s.token, o.token); return o; } };

static double rdd() { double v; if (scanf("%la", &v) != 1) exit(3); return v; }
static int rdi() { int v; if (scanf("%d", &v) != 1) exit(3); return v; }

template <int I, bool HasCal, bool HasCtl>
void history(double t0, int nticks) {
  using F = Impl<I, HasCal, HasCtl>;
  using MF = formak::runtime::ManagedFilter<F>;
  static_assert(MF::compatible);
  g_counter = 0;
  auto make = [&]() { if constexpr (HasCal) return MF(t0, SV{}, Cal{}); else return MF(t0, SV{}); };
  MF mf = make();
  for (int t = 0; t < nticks; ++t) {
    double out = rdd(); int nr = rdi();
    printf("t %d\n", t);
    SV r;
    if (nr < 0) {
      if constexpr (HasCtl) r = mf.tick(out, Ctl{}); else r = mf.tick(out);
    } else {
      std::vector<typename MF::StampedReading> rs;
      for (int k = 0; k < nr; ++k) { double ts = rdd(); Rd<F, HasCal> x; x.key = rdi(); rs.push_back(MF::wrap(ts, x)); }
      if constexpr (HasCtl) r = mf.tick(out, Ctl{}, rs); else r = mf.tick(out, rs);
    }
    printf("r %d\n", r.token);
  }
  printf("e\n"); fflush(stdout);
}
template <int I> void dispatch(int cal, int ctl, double t0, int n) {
  if (cal && ctl) history<I, true, true>(t0, n); else if (cal) history<I, true, false>(t0, n);
  else if (ctl) history<I, false, true>(t0, n); else history<I, false, false>(t0, n);
}
int main() {
  char c[8];
  while (scanf("%7s", c) == 1) {
    int I = rdi(), cal = rdi(), ctl = rdi(); double t0 = rdd(); int n = rdi();
    switch (I) { @CASES@ default: return 5; }
  }
  return 0;
}
"""


def driver_source(table):
    cases = " ".join(f"case {i}: dispatch<{i}>(cal, ctl, t0, n); break;" for i in range(len(table)))
    return DRIVER.replace("@TABLE@", ", ".join(repr(v) for v in table)).replace("@CASES@", cases)


def prepare(tier, seed, tag="rt"):
    import_formak()
    table = dt_table(seed)
    wd = H.workdir(tag)
    src = os.path.join(wd, "rec.cpp")
    with open(src, "w") as fh:
        fh.write(driver_source(table))
    state = {"wd": wd, "table": table, "prog": None, "compile_error": None}
    try:
        state["prog"] = H.compile_cpp(wd, [src], out="rec")
    except H.CppError as e:
        state["compile_error"] = e.text[-3000:]
    return state


def finish(state):
    if state:
        H.cleanup(state["wd"])


_proc = None


def run_cpp_history(state, hist):
    """-> event list like the Python recorder's"""
    global _proc
    if _proc is None or _proc.poll() is not None:
        _proc = subprocess.Popen([state["prog"]], stdin=subprocess.PIPE, stdout=subprocess.PIPE, text=True, bufsize=1)
    toks = ["H", str(hist["I"]), str(int(hist["cal"])), str(int(hist["ctl"])), H.hexf(hist["t0"]), str(len(hist["ticks"]))]
    for t in hist["ticks"]:
        toks.append(H.hexf(t["out"]))
        if t["readings"] is None:
            toks.append("-1")
        else:
            toks.append(str(len(t["readings"])))
            for ts, key in t["readings"]:
                toks += [H.hexf(ts), str(key)]
    _proc.stdin.write(" ".join(toks) + "\n")
    _proc.stdin.flush()
    ev = []
    while True:
        line = _proc.stdout.readline()
        if not line:
            raise H.CppError("run", "recording driver died")
        t = line.split()
        if t[0] == "e":
            break
        if t[0] == "p":
            ev.append(("p", float.fromhex(t[1]), int(t[2]), int(t[3])))
        elif t[0] == "s":
            ev.append(("s", int(t[1]), int(t[2]), int(t[3])))
        elif t[0] == "t":
            ev.append(("t", int(t[1])))
        elif t[0] == "r":
            ev.append(("r", int(t[1])))
    return ev


# ---- Python side -----------------------------------------------------------------------------


class _Cfg:
    def __init__(self, max_dt):
        self.max_dt_sec = max_dt


class RecordingFilter:
    """Stand-in for python.ExtendedKalmanFilter: its 'state' is a token naming the call that produced it."""

    def __init__(self, max_dt, control_size):
        self.config = _Cfg(max_dt)
        self.control_size = control_size
        self.events = []
        self.counter = 0

    def process_model(self, dt, state, covariance, control=None):
        self.counter += 1
        self.events.append(("p", float(dt), state, self.counter))
        return (self.counter, covariance)

    def sensor_model(self, state, covariance, *, sensor_key, sensor_reading):
        if sensor_key == 2:
            # like a reading rejected by innovation filtering: the very same estimate comes back; the runtime must
            # still hold it at the reading's timestamp
            self.events.append(("s", sensor_key, state, state))
            return (state, covariance)
        self.counter += 1
        self.events.append(("s", sensor_key, state, self.counter))
        return (self.counter, covariance)

    def make_reading(self, key, **kwargs):
        return ("reading", key)


def run_py_history(hist, max_dt, interloper=False):
    from formak import runtime

    rec = RecordingFilter(max_dt, 1 if hist["ctl"] else 0)
    mf = runtime.ManagedFilter(rec, hist["t0"], 0, "cov")
    control = "ctl" if hist["ctl"] else None
    ev = rec.events
    other = None
    if interloper:
        # a second, independent managed filter is ticked between the ticks of the one under test
        other = runtime.ManagedFilter(RecordingFilter(max_dt * 0.5 + 0.01, 0), hist["t0"] + 3.7, 0, "cov2")
    for i, t in enumerate(hist["ticks"]):
        if other is not None:
            other.tick(hist["t0"] + 3.7 + (-1) ** i * 0.23 * (i + 1), readings=[runtime.StampedReading(hist["t0"] + 1.1 * i, 9)])
        ev.append(("t", i))
        if t["readings"] is None:
            r = mf.tick(t["out"], control=control)
        else:
            rs = [runtime.StampedReading(ts, key) for ts, key in t["readings"]]
            r = mf.tick(t["out"], control=control, readings=rs)
        ev.append(("r", r.state))
    return ev, mf


# ---- reference fold ---------------------------------------------------------------------------


def reference_fold(hist):
    """abstract trace: per tick, the list of (kind, payload, from_token_role) the property's sentence prescribes.
    Returns per tick: [("move", t_from, t_to), ("s", key), ...] + final ("move", held, out) and the held time after."""
    held = hist["t0"]
    out = []
    for t in hist["ticks"]:
        seq = []
        for ts, key in (t["readings"] or []):
            seq.append(("move", held, ts))
            seq.append(("s", key))
            held = ts
        seq.append(("move", held, t["out"]))
        out.append(seq)
    return out


def split_ticks(events):
    ticks, cur = [], None
    for e in events:
        if e[0] == "t":
            cur = []
            ticks.append(cur)
        else:
            cur.append(e)
    return ticks


def check_moves(tick_events, ref_seq, max_dt, start_token):
    """Validity predicate over one tick's recorded calls against the reference fold.
    Returns (problem or None, held_token_after, moves [(t_from, t_to, steps)])."""
    i = 0
    held = start_token
    cur = held
    moves = []
    problem = None
    n_items = len(ref_seq)
    for idx, item in enumerate(ref_seq):
        last = idx == n_items - 1
        if item[0] == "move":
            steps = []
            while i < len(tick_events) and tick_events[i][0] == "p":
                _, dt, tin, tout = tick_events[i]
                if tin != cur:
                    return (f"prediction step consumed estimate #{tin}, expected #{cur} (data-flow)", held, moves)
                steps.append(dt)
                cur = tout
                i += 1
            moves.append((item[1], item[2], steps))
            p = move_problem(item[1], item[2], steps, max_dt)
            if p:
                return (p, held, moves)
        else:
            if i >= len(tick_events) or tick_events[i][0] != "s":
                return (f"expected sensor update {item[1]} next, got {tick_events[i] if i < len(tick_events) else 'end of tick'}", held, moves)
            _, key, tin, tout = tick_events[i]
            if key != item[1]:
                return (f"sensor update for {key}, expected {item[1]} (order of readings)", held, moves)
            if tin != cur:
                return (f"sensor update consumed estimate #{tin}, expected #{cur} (data-flow)", held, moves)
            cur = tout
            held = cur  # held estimate = result of the last sensor update
            i += 1
    if i >= len(tick_events) or tick_events[i][0] != "r":
        return (f"unexpected extra call {tick_events[i] if i < len(tick_events) else None}", held, moves)
    if tick_events[i][1] != cur:
        return (f"tick returned estimate #{tick_events[i][1]}, expected #{cur}", held, moves)
    return (None, held, moves)


def ulp(x):
    return math.ulp(abs(x)) if x != 0 else 5e-324


def move_problem(t_from, t_to, steps, max_dt):
    delta = t_to - t_from
    if delta == 0.0 and steps:
        return f"times coincide ({t_from!r}) but {len(steps)} prediction step(s) taken: {steps[:4]}"
    tol_len = max_dt * (1 + 1e-12) + 4 * ulp(max(abs(t_from), abs(t_to)))
    for s in steps:
        if s == 0.0:
            continue  # a zero-length step points nowhere
        if (s > 0) != (delta > 0):
            return f"step {s!r} points against the direction of travel {t_from!r} -> {t_to!r}; steps {steps[:6]}"
        if abs(s) > tol_len:
            return f"step {s!r} longer than max_dt {max_dt!r} moving {t_from!r} -> {t_to!r}; steps {steps[:6]}"
    if abs(math.fsum(steps) - delta) >= 1e-9 + 8 * ulp(max(abs(t_from), abs(t_to))):
        return f"steps sum to {math.fsum(steps)!r}, time difference is {delta!r} ({t_from!r} -> {t_to!r}, max_dt {max_dt!r}, {len(steps)} steps)"
    return None


# ---- history strategy -------------------------------------------------------------------------------


def _q():
    small = st.sampled_from([1e-12, 1e-9, 1e-7, 1e-6])
    ints = st.integers(0, 300)
    return st.one_of(
        ints.map(float),
        st.builds(lambda n, e, s: n + (e if s else -e), st.integers(1, 300), small, st.booleans()),
        st.builds(lambda n: n + 0.5, st.integers(0, 100)),
        st.floats(0.0, 1.0, allow_nan=False),
        st.floats(0.0, 40.0, allow_nan=False),
        st.just(0.0),
    )


def _q_long():
    """rare: one move of 1e4..2e5 maximum-size steps (drift of an accumulated time only shows on long moves)"""
    return st.one_of(st.integers(10_000, 200_000).map(float), st.builds(lambda n: n + 0.5, st.integers(10_000, 100_000)))


def signed_q():
    return st.builds(lambda q, neg: -q if neg else q, _q(), st.sampled_from([False, False, True]))


@st.composite
def histories(draw, table, *, max_ticks=5, max_readings=4):
    I = draw(st.integers(0, len(table) - 1))
    max_dt = table[I]
    t0 = draw(st.one_of(st.sampled_from([0.0, 1.0, -5.0, 100.0, 1e4, -1e4]),
                        st.floats(-1e4, 1e4, allow_nan=False, allow_subnormal=False)))
    held = t0
    ticks = []
    if draw(st.integers(0, 39)) == 0:
        # long-move class: a single tick far away (forwards or backwards), start time small so that |t| stays moderate
        t0 = draw(st.sampled_from([0.0, 1.0, -5.0]))
        q = draw(_q_long()) * (1 if draw(st.booleans()) else -1)
        q = max(-2e4 / max_dt, min(2e4 / max_dt, q))  # keep |t| <= ~2e4 s
        return {"I": I, "max_dt": max_dt, "cal": draw(st.booleans()), "ctl": draw(st.booleans()), "t0": t0,
                "ticks": [{"out": t0 + q * max_dt, "readings": None}], "long": True}
    for _ in range(draw(st.integers(1, max_ticks))):
        readings = None
        kind = draw(st.sampled_from(["none", "none", "empty", "some", "some", "some"]))
        if kind == "empty":
            readings = []
        elif kind == "some":
            readings = []
            base = held
            for _ in range(draw(st.integers(1, max_readings))):
                # timestamps relative to the held time, in any order; ties: one reading in five repeats the timestamp of
                # ANY earlier reading of the tick (equal stamps that are not neighbours must still be folded as given)
                if readings and draw(st.sampled_from([False, False, False, False, True])):
                    ts = draw(st.sampled_from([r[0] for r in readings]))
                else:
                    ts = base + draw(signed_q()) * max_dt
                readings.append([ts, draw(st.integers(0, 2))])
            held = readings[-1][0]
        if ticks and draw(st.sampled_from([False, False, False, False, False, True])):
            out = ticks[-1]["out"]  # polling the same output time again (nothing may be remembered from the previous tick)
        else:
            out = held + draw(signed_q()) * max_dt
        ticks.append({"out": out, "readings": readings})
    return {"I": I, "max_dt": max_dt, "cal": draw(st.booleans()), "ctl": draw(st.booleans()), "t0": t0, "ticks": ticks}


def segment_moves(tick_events, ref_seq):
    """C10 view: split one tick's prediction steps at its sensor updates; None when the update count does not match."""
    segs, cur = [], []
    for e in tick_events:
        if e[0] == "p":
            cur.append(e[1])
        elif e[0] == "s":
            segs.append(cur)
            cur = []
    segs.append(cur)
    moves = [it for it in ref_seq if it[0] == "move"]
    if len(segs) != len(moves):
        return None
    return [(mv[1], mv[2], steps) for mv, steps in zip(moves, segs)]
