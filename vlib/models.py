"""Definition specs (JSON-able) -> FormaK objects, and Hypothesis strategies producing them."""
from __future__ import annotations

from hypothesis import strategies as st

from . import names as N
from . import trees as T

BOX = 3.0
N_CONST_SAFE = 6  # indices 0..6 of trees.CONSTS: 1, 2, 3, -1, -2, 0.5, 2.5


def _val(lo=0.1, hi=BOX):
    return st.floats(min_value=lo, max_value=hi, allow_nan=False, allow_infinity=False, allow_subnormal=False)


def signed_val(lo=0.1, hi=BOX):
    return st.builds(lambda v, s: v if s else -v, _val(lo, hi), st.booleans())


def noise_val():
    return st.floats(min_value=0.05, max_value=2.0, allow_nan=False, allow_subnormal=False)


# calibration_map is annotated dict[Symbol, float]: python floats and numpy float scalars. (Exact rationals are NOT in the
# domain: np.sin(Fraction) raises as soon as a calibration symbol sits inside a function — DESIGN §10 item 17.)
CALIB_TYPES = ("float", "float", "npfloat", "npfloat32")


@st.composite
def model_specs(
    draw,
    *,
    names="ident",  # "ident" | "free"
    n_state=(1, 4),
    n_control=(0, 3),
    n_calib=(0, 2),
    n_sensors=(0, 0),
    n_readings=(1, 3),
    depth=3,
    sensor_depth=2,
    pool=None,  # None: 50 %, True: always, False: never
    combo=None,  # (has_control, has_calibration) forced
    euler=False,
    allow_string_form=False,
    allow_alt_dt=False,
    cse=None,
    innovation=("none", "k"),
    allow_positive=True,
    allow_abs2=None,
    template=None,  # None | "bilinear" | "mixed" (one model in four bilinear)
    # how calibration values are handed over: python floats, exact rationals (sympy.Rational / fractions.Fraction, q<=1000)
    # or numpy scalars; all are accepted by FormaK (probed) and are CALLER-OWNED inputs that must come back unchanged
    calib_types=("float",),
    # inverse-composition nodes (atan(tan u), sqrt(u**2) ...) at the OUTERMOST level of state updates only: nested under
    # other functions (via the pool) or differentiated in sensors they make sympy's simplify take 10 s+
    allow_wrap=False,
):
    if allow_abs2 is None:
        allow_abs2 = allow_positive
    ns = draw(st.integers(*n_state))
    nc = draw(st.integers(*n_control))
    nk = draw(st.integers(*n_calib))
    if combo is not None:
        has_c, has_k = combo
        nc = max(1, nc) if has_c else 0
        nk = max(1, nk) if has_k else 0
    total = ns + nc + nk
    namelist = draw(N.ident_lists(total) if names == "ident" else N.freeform_lists(total))
    state, control, calib = namelist[:ns], namelist[ns:ns + nc], namelist[ns + nc:]
    dtname = "dt"
    if allow_alt_dt and names != "ident" and draw(st.integers(0, 9)) == 0:
        dtname = "delta_t" if "delta_t" not in namelist else "dt"
    positive = [n for n in namelist if draw(st.integers(0, 3)) == 0] if allow_positive else []
    syms = state + control + calib + [dtname]

    if allow_wrap:  # one model in four carries inverse-composition nodes (sympy's simplify is slow on them)
        allow_wrap = allow_wrap if draw(st.integers(0, 3)) == 0 else False
    use_pool = draw(st.booleans()) if pool is None else pool
    pooltrees = []
    if use_pool:
        npool = draw(st.integers(2, 3))
        for j in range(npool):
            # later pool entries may contain earlier ones -> nested temporaries
            pt = draw(T.exprs(syms, positive, depth=2, pool=pooltrees[:], allow_abs2=allow_abs2, allow_wrap=False).filter(lambda t: T.size(t) >= 3))
            pooltrees.append(pt)

    trees = {}
    bilinear = template == "bilinear" or (template == "mixed" and draw(st.integers(0, 3)) == 0)
    for s in state:
        if bilinear:
            # linear in the state with state x control / state x calibration products: the Jacobians contain no state
            # symbol but do depend on controls, calibration and dt
            terms = []
            for _ in range(draw(st.integers(1, 3))):
                xj = ["sym", draw(st.sampled_from(state))]
                others = control + calib
                k = draw(st.sampled_from(["const", "ctl", "ctl_dt", "dt"])) if others else draw(st.sampled_from(["const", "dt"]))
                if k == "const":
                    terms.append(["mul", ["const", draw(st.integers(0, N_CONST_SAFE))], xj])
                elif k == "dt":
                    terms.append(["mul", ["sym", dtname], xj])
                elif k == "ctl":
                    terms.append(["mul", ["sym", draw(st.sampled_from(others))], xj])
                else:
                    terms.append(["mul", ["mul", ["sym", draw(st.sampled_from(others))], ["sym", dtname]], xj])
            if control and draw(st.booleans()):
                terms.append(["mul", ["sym", dtname], ["sym", draw(st.sampled_from(control))]])
            t = terms[0]
            for extra in terms[1:]:
                t = ["add", t, extra]
            trees[s] = t
            continue
        if euler:
            # x' = a*x_j + dt*E : keeps histories bounded
            j = draw(st.sampled_from(state))
            a = draw(st.sampled_from([0, 0, 5, 1]))  # CONSTS idx: 1, 1, 0.5, 2 -> see T.CONSTS
            e = draw(T.exprs(syms[:-1], positive, depth=max(1, depth - 1), pool=pooltrees, allow_abs2=allow_abs2, allow_wrap=allow_wrap))
            if euler == "bounded":
                # |x'| <= |x| + |dt|: trajectories grow at most linearly however many steps are taken
                a = draw(st.sampled_from([0, 0, 5]))
                e = [draw(st.sampled_from(["tanh", "sin", "cos"])), e]
            trees[s] = ["add", ["mul", ["const", a], ["sym", j if draw(st.booleans()) else s]],
                        ["mul", ["sym", dtname], e]]
        else:
            trees[s] = draw(T.exprs(syms, positive, depth=depth, pool=pooltrees, allow_abs2=allow_abs2, allow_wrap=allow_wrap))

    string_form = []
    if allow_string_form and names == "ident" and draw(st.integers(0, 2)) == 0:
        # an update given as a string is parsed by sympy: names that exist in sympy's namespace (Gt, Ne, S, N, beta, ...)
        # would be resolved to sympy objects instead of symbols, so such definitions are never written as strings
        import sympy

        clash = {n for n in namelist + [dtname] if hasattr(sympy, n)}
        string_form = [s for s in state if draw(st.booleans()) and not (T.symbols_of(trees[s]) & clash)]

    containers = {
        "state": draw(st.sampled_from(["set", "list"])),
        "control": draw(st.sampled_from(["set", "list"])),
        "calib": draw(st.sampled_from(["set", "set", "list"])),
    }
    calib_values = {k: (draw(_val(0.5, BOX)) if k in positive else draw(signed_val())) for k in calib}
    calib_type = draw(st.sampled_from(list(calib_types)))
    if calib_type == "npfloat32":
        import numpy as np

        calib_values = {k: float(np.float32(v)) for k, v in calib_values.items()}  # exactly representable in binary32
    process_noise = {c: draw(noise_val()) for c in control}

    nsens = draw(st.integers(*n_sensors))
    sensors, sensor_noises = {}, {}
    if nsens:
        skeys = draw(N.sensor_names(nsens))
        for key in skeys:
            m = draw(st.integers(*n_readings))
            # a reading named like its sensor's generated struct (name.title()) would collide with the constructor
            rnames = [r + "_r" if r == key.title() else r for r in draw(N.ident_lists(m))]
            if sensors and draw(st.sampled_from([False, False, False, True])):
                # two sensors may name a reading alike (gps.x / odom.x): whatever is keyed by reading name alone collides;
                # a sensor of the same size takes over the WHOLE list of names (whatever is keyed by the list collides)
                same_size = sorted(k_ for k_, rs_ in sensors.items() if len(rs_) == m and key.title() not in rs_)
                other = draw(st.sampled_from(sorted(r_ for rs_ in sensors.values() for r_ in rs_)))
                if same_size and draw(st.booleans()):
                    rnames = list(sensors[draw(st.sampled_from(same_size))])
                elif other not in rnames and other != key.title():
                    rnames[0] = other
            ssyms = state + calib
            # SensorModel.__init__ evaluates every sensor at the all-zero state ("pre-flight"), so an accepted
            # sensor must be defined there: only calibration symbols may be used as positive divisors.
            sensors[key] = {r: draw(T.exprs(ssyms, [p for p in positive if p in calib], depth=sensor_depth, allow_abs2=allow_abs2, allow_wrap=False,
                                            pool=[p for p in pooltrees if T.symbols_of(p) <= set(ssyms)
                                                  and T.divisor_symbols(p) <= set(calib)]))
                            for r in rnames}
            sensor_noises[key] = {r: draw(noise_val()) for r in rnames}

    # the project's own tests key a single-reading sensor (and its noise) by a sympy Symbol instead of a string
    symbol_keyed = [k for k, rs in sensors.items() if len(rs) == 1 and draw(st.integers(0, 5)) == 0]
    # ... and the documented key type of a noise map is the Symbol, also where the readings are named by strings
    noise_symbol_keyed = [k for k in sensors if k not in symbol_keyed and draw(st.sampled_from([False, False, False, True]))]

    cfg = {
        "cse": draw(st.booleans()) if cse is None else cse,
        "innov": None,
        "max_dt": draw(st.sampled_from([0.1, 0.1, 0.05, 0.01, 0.25, 1.0])),
    }
    kind = draw(st.sampled_from(innovation))
    if kind == "k":
        cfg["innov"] = draw(st.floats(min_value=0.5, max_value=8.0, allow_nan=False))
    return {
        "proactive_simplify": allow_string_form and draw(st.integers(0, 4)) == 0,
        "dt": dtname,
        "state": state,
        "control": control,
        "calib": calib,
        "containers": containers,
        "positive": positive,
        "trees": trees,
        "string_form": string_form,
        "calib_values": calib_values,
        "process_noise": process_noise,
        "sensors": sensors,
        "sensor_noises": sensor_noises,
        "config": cfg,
        "pool_size": len(pooltrees),
        "symbol_keyed": symbol_keyed,
        **({"noise_symbol_keyed": noise_symbol_keyed} if noise_symbol_keyed else {}),
        **({"calib_type": calib_type} if calib_type != "float" else {}),
        # both documented forms of `config=` for both back-ends: default = python.Config object / dict for cpp; swapped =
        # dict for python / cpp.Config object
        **({"config_form": "swapped"} if draw(st.sampled_from([False, False, True])) else {}),
    }


@st.composite
def points(draw, spec, *, dt=("pos", "neg"), extra_zero_dt=False):
    p = {}
    for n in spec["state"] + spec["control"]:
        p[n] = draw(_val(0.5, BOX)) if n in spec["positive"] else draw(signed_val())
    kinds = list(dt) + (["zero"] if extra_zero_dt else [])
    k = draw(st.sampled_from(kinds))
    mag = draw(st.floats(min_value=1e-3, max_value=0.5, allow_nan=False))
    p[spec["dt"]] = {"pos": mag, "neg": -mag, "zero": 0.0}[k]
    return p


@st.composite
def point_sequences(draw, spec, n, **kw):
    """n input points where consecutive points share some of their input groups (time step / state / control): a result
    memoised on part of the inputs (a cache keyed by dt only, or by the operating point without dt — "state+control":
    only the time step moves —, a static temporary, ...) shows up as a stale value."""
    pts = [draw(points(spec, **kw))]
    for _ in range(n - 1):
        fresh = draw(points(spec, **kw))
        keep = draw(st.sampled_from(["none", "dt", "dt+state", "dt+control", "state", "control", "state+control", "state+control",
                                     "all-but-one", "all-but-one"]))
        p = dict(fresh)
        prev = pts[-1]
        if keep == "all-but-one":
            # exactly one input moves between two small "nice" values (integer-valued floats are where hash- or
            # equality-keyed memoisation goes wrong: hash(-1.0) == hash(-2.0) in CPython)
            p = dict(prev)
            names_ = [n_ for n_ in spec["state"] + spec["control"] if n_ not in spec["positive"]]
            if names_:
                nm = draw(st.sampled_from(names_))
                a, b = draw(st.permutations([-2.0, -1.0, 1.0, 2.0, -0.5, 0.5]))[:2]
                prev[nm], p[nm] = a, b
            pts.append(p)
            continue
        if "dt" in keep:
            p[spec["dt"]] = prev[spec["dt"]]
        if "state" in keep:
            for s_ in spec["state"]:
                p[s_] = prev[s_]
        if "control" in keep:
            for c_ in spec["control"]:
                p[c_] = prev[c_]
        pts.append(p)
    return pts


# ------------------------------------------------------------------------------------------
# builders (import sympy / formak lazily; FORMAK_REPO must be on sys.path: ctxmod.import_formak())


def symtab(spec):
    import sympy

    return {n: sympy.Symbol(n) for n in spec["state"] + spec["control"] + spec["calib"] + [spec["dt"]]}


def _container(kind, items):
    return set(items) if kind == "set" else list(items)


def state_model_exprs(spec, tab=None):
    tab = tab or symtab(spec)
    out = {}
    for s in spec["state"]:
        e = T.to_sympy(spec["trees"][s], tab)
        if s in spec.get("string_form", []):
            e = str(e)
        out[tab[s]] = e
    return out


def ui_model(spec, tab=None):
    from formak import ui

    tab = tab or symtab(spec)
    c = spec["containers"]
    calibration = _container(c["calib"], [tab[k] for k in spec["calib"]])
    import contextlib
    import io

    with contextlib.redirect_stdout(io.StringIO()):  # proactive_simplify prints timings
        return ui.Model(
            dt=tab[spec["dt"]],
            state=_container(c["state"], [tab[s] for s in spec["state"]]),
            control=_container(c["control"], [tab[s] for s in spec["control"]]),
            state_model=state_model_exprs(spec, tab),
            calibration=calibration,
            proactive_simplify=bool(spec.get("proactive_simplify", False)),
        )


def calibration_map(spec, tab=None):
    tab = tab or symtab(spec)
    return {tab[k]: _calib_value(spec, spec["calib_values"][k]) for k in spec["calib"]}


def _calib_value(spec, v):
    kind = spec.get("calib_type")
    if kind == "rational":
        import sympy

        return sympy.Rational(v).limit_denominator(1000)
    if kind == "fraction":
        import fractions

        return fractions.Fraction(v).limit_denominator(1000)
    if kind == "npfloat":
        import numpy as np

        return np.float64(v)
    if kind == "npfloat32":
        import numpy as np

        return np.float32(v)
    return v


def same_values(a, b):
    """caller-owned parameter maps compared the way scikit-learn's estimator checks do (joblib.hash of each parameter before
    and after): same keys, and every value of the same TYPE and equal — 0.3 replaced by numpy.float64(0.3), or an exact
    number replaced by its float, is a modified parameter"""
    if isinstance(a, dict) and isinstance(b, dict):
        return set(a) == set(b) and all(same_values(a[k], b[k]) for k in a)
    return type(a) is type(b) and bool(a == b)


def _noise_value(spec, v):
    """noise magnitudes may be handed over as exact rationals (sympy.Rational / fractions.Fraction) instead of floats"""
    kind = spec.get("noise_type")
    if kind == "rational":
        import sympy

        return sympy.Rational(v).limit_denominator(1000)
    if kind == "fraction":
        import fractions

        return fractions.Fraction(v).limit_denominator(1000)
    return v


def process_noise(spec, tab=None):
    tab = tab or symtab(spec)
    return {tab[c]: _noise_value(spec, spec["process_noise"][c]) for c in spec["control"]}


def _rkey(spec, key, r):
    if key in spec.get("symbol_keyed", []):
        import sympy

        return sympy.Symbol(r)
    return r


def sensor_models(spec, tab=None):
    tab = tab or symtab(spec)
    return {key: {_rkey(spec, key, r): T.to_sympy(t, tab) for r, t in m.items()} for key, m in spec["sensors"].items()}


def _nkey(spec, key, r):
    """noise maps are documented as keyed by Symbols (dict[Symbol | tuple, float]); strings work as well. For the sensors in
    spec["noise_symbol_keyed"] the noise map is keyed by Symbols although the sensor's readings are named by strings."""
    if key in spec.get("symbol_keyed", []) or key in spec.get("noise_symbol_keyed", []):
        import sympy

        return sympy.Symbol(r)
    return r


def sensor_noises(spec):
    return {key: {_nkey(spec, key, r): _noise_value(spec, v) for r, v in m.items()} for key, m in spec["sensor_noises"].items()}


def py_config(spec, **over):
    from formak import python

    c = spec["config"]
    kw = dict(common_subexpression_elimination=c["cse"], innovation_filtering=c["innov"], max_dt_sec=c["max_dt"])
    if spec.get("ufun"):
        import numpy as np

        kw["python_modules"] = tuple(python.DEFAULT_MODULES) + ({"verif_sat": lambda v: np.tanh(v) / 2},)
    want_object = over.pop("_object", False)
    kw.update(over)
    if spec.get("config_form") == "swapped" and not want_object:
        return kw  # the documented dict form of the configuration (python: dict, C++: Config object in this class)
    return python.Config(**kw)


def cpp_config(spec, **over):
    c = spec["config"]
    kw = dict(common_subexpression_elimination=c["cse"], innovation_filtering=c["innov"], max_dt_sec=c["max_dt"])
    kw.update(over)
    return kw


def compile_py_model(spec, **over):
    from formak import python

    tab = symtab(spec)
    return python.compile(ui_model(spec, tab), calibration_map(spec, tab), config=py_config(spec, **over))


def compile_py_ekf(spec, **over):
    from formak import python

    tab = symtab(spec)
    return python.compile_ekf(
        ui_model(spec, tab),
        process_noise(spec, tab),
        sensor_models(spec, tab),
        sensor_noises(spec),
        calibration_map(spec, tab),
        config=py_config(spec, **over),
    )


def total_symbols(spec):
    return len(spec["state"]) + len(spec["control"]) + len(spec["calib"])


def cse_stats(spec, which="model"):
    """(n_temps, nested) as sympy.cse reports for the statement list FormaK will build (measured, not assumed)."""
    import sympy

    tab = symtab(spec)
    exprs = [T.to_sympy(spec["trees"][s], tab) for s in sorted(spec["state"])]
    try:
        rep, _ = sympy.cse(exprs)
    except Exception:
        return 0, False
    temps = {r[0] for r in rep}
    nested = any(r[1].free_symbols & temps for r in rep)
    return len(rep), nested


def shadow_of(spec, kind):
    """A second definition that shares names with `spec`:
    'roles'   - the same update expressions, but control and calibration symbols swap roles (same symbol set, other
                positional order of every generated function);
    'sensors' - the same symbols and the same sensor / reading names, other sensor and update expressions."""
    import copy

    m = copy.deepcopy(spec)
    if kind == "roles":
        m["control"], m["calib"] = list(spec["calib"]), list(spec["control"])
        m["calib_values"] = {k: 0.5 + 0.25 * i for i, k in enumerate(m["calib"])}
        m["process_noise"] = {c: 0.3 + 0.1 * i for i, c in enumerate(m["control"])}
        # sensors may not depend on controls: drop them in the shadow
        m["sensors"], m["sensor_noises"], m["symbol_keyed"] = {}, {}, []
        m["positive"] = list(spec["positive"])
    else:
        first = ["sym", spec["state"][0]]
        m["sensors"] = {k: {r: ["add", ["mul", ["const", 1], t], first] for r, t in rs.items()} for k, rs in spec["sensors"].items()}
        m["trees"] = {s: ["add", t, ["mul", ["const", 5], first]] for s, t in spec["trees"].items()}
    m["string_form"] = []
    m["proactive_simplify"] = False
    return m
