#!/bin/bash
# setup_cmd: verify interpreter, compiler and python deps; install hypothesis offline if missing.
set -u
cd "$(dirname "$0")"
PY=/venv/bin/python
[ -x "$PY" ] || { echo "missing $PY"; exit 2; }
command -v g++ >/dev/null || { echo "missing g++"; exit 2; }
if ! "$PY" -c "import hypothesis" 2>/dev/null; then
  if ! PYTHONPATH="$(pwd)/.deps" "$PY" -c "import hypothesis" 2>/dev/null; then
    "$PY" -m pip install --no-index --find-links /opt/veriftools/wheels --target "$(pwd)/.deps" hypothesis || exit 2
  fi
fi
PYTHONPATH="$(pwd)/.deps" "$PY" -c "import hypothesis, mpmath, numpy, sympy, scipy, sklearn, jinja2; print('deps ok', hypothesis.__version__)" || exit 2
mkdir -p evidence replays .cache/mpl
echo "setup ok"
