"""C13 — values are bound by name, never by position or spelling."""
from __future__ import annotations

import copy

import numpy as np
from hypothesis import strategies as st

from props import c02
from vlib import cppharness as H
from vlib import ctxmod, ekf, models
from vlib import names as N

PROP_ID = "C13"
LEVEL = "exploration"
RULE = (
    "API layer: for generated name lists (identifier and LaTeX-like names) and a filter compiled from them, "
    "State/Control/Covariance/Reading built from a generated subset of named values must store each value at the index "
    "of its own name in the object's public arglist (which must be the names sorted ascending), default the rest to 0 "
    "(1 on a covariance diagonal), reject an unknown name with TypeError and a wrong-shaped from_data with ValueError; "
    "from_dict with Symbol keys and make_reading(key, data=...) are covered; common.named_vector/named_covariance are "
    "also driven directly. Metamorphic layer: a definition and its twin under a generated bijective renaming of every "
    "state/control/calibration/reading name to fresh identifier names with adversarial sort order, with declaration order "
    "permuted and set/list containers flipped; Python model, Jacobians, prediction and update results read back by name "
    "must agree (1e-7 relative). C++ (sampled, two compiles per case): the same twin pair generated and compiled, all "
    "outputs compared through named accessors. Non-trivial = the renaming changes the relative sorted order of >=2 state "
    "names and of >=2 reading or control names; distinct = sha1(case)."
)
ASSUMPTIONS = c02.ASSUMPTIONS + ["twin outputs are compared to each other (rounding-level tolerance), the reference comparison is C01..C05's job"]
BUDGET = {
    "quick": {"shards": 16, "examples": 10, "wall": 120, "api_examples": 40, "cpp_examples": 2},
    "thorough": {"shards": 16, "examples": 3500, "wall": 900, "api_examples": 30000, "cpp_examples": 300},
}


# ---- API layer ---------------------------------------------------------------------------------


@st.composite
def api_cases(draw):
    spec = draw(models.model_specs(names="free", n_state=(1, 5), n_control=(0, 3), n_calib=(0, 2), n_sensors=(1, 2),
                                   n_readings=(1, 4), depth=1, sensor_depth=1, cse=False, innovation=("none",)))
    def subset(names_):
        # 0.0 is a legal named value (an exactly known quantity / a zero variance) and differs from the covariance default
        return {n: draw(st.one_of(models.signed_val(), st.sampled_from([0.0, 1.0, 1e-12]))) for n in names_ if draw(st.booleans())}
    return {"layer": "api", "model": spec, "state_kw": subset(spec["state"]), "control_kw": subset(spec["control"]),
            "cov_kw": {k: abs(v) for k, v in subset(spec["state"]).items()},
            "reading_kw": {key: subset(list(r)) for key, r in spec["sensors"].items()},
            "bogus": draw(N.ident()), "near_miss": draw(st.sampled_from(["drop-last", "drop-first", "upper", "append", "middle"]))}


def api_case(spec, ctx):
    import sympy
    from formak import common

    m = spec["model"]
    with ctx.watchdog(20):
        with ctx.formak("compile_ekf", spec):
            f = models.compile_py_ekf(m)
    groups = [("State", f.State, f.arglist_state, sorted(m["state"]), spec["state_kw"], 0.0, False),
              ("Control", f.Control, f.arglist_control, sorted(m["control"]), spec["control_kw"], 0.0, False),
              ("Covariance", f.Covariance, f.arglist_state, sorted(m["state"]), spec["cov_kw"], 1.0, True)]
    for key in m["sensors"]:
        sm = f.sensor_models[key]
        groups.append((f"Reading[{key}]", sm.Reading, sm.readings, sorted(m["sensors"][key]), spec["reading_kw"][key], 0.0, False))
    for what, cls, arglist, expect, kw, default, is_cov in groups:
        al = [str(a) for a in arglist]
        if al != expect:
            ctx.fail(f"api:layout:{what.split('[')[0]}", f"{what}: arglist {al} is not the names sorted ascending {expect}", spec)
        with ctx.formak(f"api:construct:{what.split('[')[0]}", spec):
            obj = cls(**kw)
        data = np.asarray(obj.data, float)
        nn = len(al)
        if data.shape != ((nn, nn) if is_cov else (nn, 1)):
            ctx.fail(f"api:shape:{what.split('[')[0]}", f"{data.shape}", spec)
        for i, name in enumerate(al):
            got = data[i, i] if is_cov else data[i, 0]
            want = kw.get(name, default)
            if got != want:
                ctx.fail(f"api:binding:{what.split('[')[0]}", f"{what}({kw}) stores {got!r} for {name!r} (slot {i}), expected {want!r}", spec)
        if is_cov and nn > 1:
            off = data - np.diag(np.diag(data))
            if np.any(off != 0):
                ctx.fail("api:covariance-offdiagonal", f"{data}", spec)
        # unknown names: an unrelated one and near misses of the real names (prefix / suffix / substring / other case)
        candidates = [spec["bogus"]]
        for nm in al:
            variant = {"drop-last": nm[:-1], "drop-first": nm[1:], "upper": nm.swapcase(), "append": nm + "_",
                       "middle": nm[1:-1]}[spec.get("near_miss", "drop-last")]
            if variant and variant.isidentifier():
                candidates.append(variant)
        for bogus in candidates:
            if bogus in al:
                continue
            try:
                cls(**{bogus: 1.0})
                accepted = True
            except Exception:  # "rejects unknown names": any error
                accepted = False
            if accepted:
                ctx.fail(f"api:unknown-name-accepted:{what.split('[')[0]}", f"{what}({bogus}=1.0) accepted; names {al}", spec)
        right = (nn, nn) if is_cov else (nn, 1)
        # wrong shapes, including the ones numpy would happily broadcast to the right one
        shapes = [(nn + 1, 1), (nn, nn + 1), (1, 1), (1,), (), (nn,), (1, nn), (nn, 1), (nn, nn), (nn, 2), (nn, 1, 1)]
        for shp in shapes:
            if shp == right:
                continue
            wrong = np.full(shp, 0.5)
            try:
                cls.from_data(wrong)
                accepted = True
            except Exception:  # "rejects wrong shapes": any error
                accepted = False
            if accepted:
                ctx.fail(f"api:wrong-shape-accepted:{what.split('[')[0]}", f"{what}.from_data(array of shape {shp}) accepted; the shape must be {right}", spec)
        with ctx.formak("api:from_dict", spec):
            obj2 = cls.from_dict({sympy.Symbol(k): v for k, v in kw.items()})
        if not np.array_equal(np.asarray(obj2.data, float), data):
            ctx.fail("api:from_dict", f"{what}.from_dict differs from keyword construction", spec)
    for key in m["sensors"]:
        sm = f.sensor_models[key]
        kw = spec["reading_kw"][key]
        with ctx.formak("api:make_reading", spec):
            r1 = f.make_reading(key, **kw)
            r2 = f.make_reading(key, data=np.asarray(r1.data, float).copy())
        if not (isinstance(r1, sm.Reading) and np.array_equal(r1.data, r2.data)):
            ctx.fail("api:make_reading", f"sensor {key}", spec)
    # the factory functions directly, with the arglist in a non-sorted order
    names_ = list(m["state"])
    V = common.named_vector("V", [sympy.Symbol(n) for n in names_])
    v = V(**spec["state_kw"])
    for i, n in enumerate(names_):
        if v.data[i, 0] != spec["state_kw"].get(n, 0.0):
            ctx.fail("api:named_vector", f"named_vector({names_})(**{spec['state_kw']}) slot {i}", spec)
    ctx.event("api_case")
    if len(m["state"]) >= 2 and m["state"] != sorted(m["state"]) and spec["state_kw"]:
        ctx.nontrivial(spec)


# ---- metamorphic layer -------------------------------------------------------------------------


def rename_tree(t, mp_):
    if t[0] == "sym":
        return ["sym", mp_.get(t[1], t[1])]
    if t[0] == "pinv":
        return ["pinv", mp_.get(t[1], t[1]), t[2]]
    return [t[0]] + [rename_tree(c, mp_) if isinstance(c, list) else c for c in t[1:]]


def twin_of(m, mapping, rmapping, perm_seed, flip):
    """rename every symbol / reading, permute declaration order, flip containers"""
    def ren(xs):
        return [mapping[x] for x in xs]
    def permute(xs, k):
        xs = list(xs)
        return xs[k % len(xs):] + xs[: k % len(xs)] if xs else xs
    t = copy.deepcopy(m)
    t["state"] = permute(ren(m["state"])[::-1], perm_seed)
    t["control"] = permute(ren(m["control"])[::-1], perm_seed + 1)
    t["calib"] = permute(ren(m["calib"])[::-1], perm_seed + 2)
    t["positive"] = ren(m["positive"])
    t["trees"] = {mapping[s]: rename_tree(m["trees"][s], mapping) for s in reversed(m["state"])}
    t["calib_values"] = {mapping[k]: v for k, v in reversed(list(m["calib_values"].items()))}
    t["process_noise"] = {mapping[k]: v for k, v in reversed(list(m["process_noise"].items()))}
    t["sensors"] = {key: {rmapping[key][r]: rename_tree(tr, mapping) for r, tr in reversed(list(rs.items()))}
                    for key, rs in reversed(list(m["sensors"].items()))}
    # noise entries: declared in another order than the readings they belong to (outer and inner maps reversed, then
    # rotated by the permutation seed, so that the order is neither the readings' nor its mirror image)
    t["sensor_noises"] = {key: dict(permute([(rmapping[key][r], v) for r, v in reversed(list(rs.items()))], perm_seed))
                          for key, rs in reversed(list(m["sensor_noises"].items()))}
    if flip:
        t["containers"] = {k: ("list" if v == "set" else "set") for k, v in m["containers"].items()}
    t["string_form"] = []
    return t


@st.composite
def twin_cases(draw, cpp=False):
    m = draw(models.model_specs(names="ident" if cpp else draw(st.sampled_from(["ident", "free"])), n_state=(2, 4), n_control=(0, 3), n_calib=(0, 2), n_sensors=(1, 2),
                                n_readings=(1, 3), depth=2, sensor_depth=2, innovation=("none", "k")))
    allnames = m["state"] + m["control"] + m["calib"]
    fresh = draw(N.ident_lists(len(allnames)) if cpp else N.freeform_lists(len(allnames)))
    mapping = dict(zip(allnames, fresh))
    rmapping = {}
    for key, rs in m["sensors"].items():
        rn = draw(N.ident_lists(len(rs)))
        rn = [r + "_r" if r == key.title() else r for r in rn]
        rmapping[key] = dict(zip(rs, rn))
    n = len(m["state"])
    pts = [{"point": draw(models.points(m)), "P": draw(ekf.spd(n))} for _ in range(3)]
    key = draw(st.sampled_from(sorted(m["sensors"])))
    up = {"key": key, "point": draw(models.points(m)), "P": draw(ekf.spd(n)),
          "z": {r: draw(models.signed_val()) for r in m["sensors"][key]}}
    return {"layer": "cpp" if cpp else "py", "model": m, "mapping": mapping, "rmapping": rmapping,
            "perm": draw(st.integers(0, 5)), "flip": draw(st.booleans()), "process": pts, "update": up}


def order_changed(names_, mapping):
    a = sorted(names_)
    b = sorted(names_, key=lambda x: mapping[x])
    return sum(1 for x, y in zip(a, b) if x != y)


def py_outputs(ctx, spec, m, f, pts, up, mapping=None, rmap=None):
    """named outputs: {tag: {name tuple: value}} using the object's own arglists"""
    mapping = mapping or {}
    inv = {v: k for k, v in mapping.items()}
    back = lambda n: inv.get(str(n), str(n))  # noqa: E731
    out = {}
    sa = [back(s) for s in f.arglist_state]
    ca = [back(s) for s in f.arglist_control]
    for i, x in enumerate(pts):
        p = {mapping.get(k, k): v for k, v in x["point"].items()}
        state, control, cov = ekf.state_of(f, m, p), ekf.control_of(f, m, p), None
        # covariance given by *name*: P[i][j] refers to sorted original state names
        orig = sorted(inv.get(s, s) for s in m["state"])
        n = len(orig)
        data = np.zeros((n, n))
        for a, na in enumerate(orig):
            for b, nb in enumerate(orig):
                data[sa.index(na), sa.index(nb)] = x["P"][a][b]
        cov = f.Covariance.from_data(data)
        dt = p[m["dt"]]
        with ctx.formak("twin:evaluate", spec):
            G = np.asarray(f.process_jacobian(dt, state, control), float)
            V = np.asarray(f.control_jacobian(dt, state, control), float)
            pm = f.process_model(dt, state, cov, control)
        for a, na in enumerate(sa):
            out[("x", i, na)] = float(pm.state.data[a, 0])
            for b, nb in enumerate(sa):
                out[("G", i, na, nb)] = G[a, b]
                out[("P", i, na, nb)] = float(pm.covariance.data[a, b])
            for b, nb in enumerate(ca):
                out[("V", i, na, nb)] = V[a, b]
    key = up["key"]
    rinv = {v: k for k, v in (rmap or {}).get(key, {}).items()}
    p = {mapping.get(k, k): v for k, v in up["point"].items()}
    orig = sorted(inv.get(s, s) for s in m["state"])
    n = len(orig)
    data = np.zeros((n, n))
    for a, na in enumerate(orig):
        for b, nb in enumerate(orig):
            data[sa.index(na), sa.index(nb)] = up["P"][a][b]
    z = {(rmap or {}).get(key, {}).get(r, r): v for r, v in up["z"].items()}
    with ctx.formak("twin:update", spec):
        o = f.sensor_model(ekf.state_of(f, m, p), f.Covariance.from_data(data), sensor_key=key, sensor_reading=f.make_reading(key, **z))
        Hm = np.asarray(f.sensor_jacobian(key, ekf.state_of(f, m, p)), float)
    rds = [rinv.get(str(r), str(r)) for r in f.sensor_models[key].readings]
    for a, na in enumerate(sa):
        out[("ux", na)] = float(o.state.data[a, 0])
        for b, nb in enumerate(sa):
            out[("uP", na, nb)] = float(o.covariance.data[a, b])
        for b, r in enumerate(rds):
            out[("H", r, na)] = Hm[b, a]
    for b, r in enumerate(rds):
        out[("y", r)] = float(f.innovations[key][b, 0])
    return out


def compare(ctx, spec, a, b, bucket):
    if set(a) != set(b):
        ctx.fail(bucket + ":names", f"named outputs differ: {sorted(set(a) ^ set(b))[:6]}", spec)
    scale = max([1.0] + [abs(v) for v in a.values() if v == v])
    for k in a:
        va, vb = a[k], b[k]
        if va != va or vb != vb or abs(va - vb) > 1e-7 * max(1.0, abs(va), abs(vb)) + 1e-12 * scale:
            ctx.fail(bucket, f"{k}: original {va!r} renamed/re-declared twin {vb!r}; renaming {spec['mapping']}", spec)


def twin_case(spec, ctx):
    m = spec["model"]
    t = twin_of(m, spec["mapping"], spec["rmapping"], spec["perm"], spec["flip"])
    if spec["layer"] == "py":
        with ctx.watchdog(40):
            with ctx.formak("compile_ekf", spec):
                f1 = models.compile_py_ekf(m)
                f2 = models.compile_py_ekf(t)
        a = py_outputs(ctx, spec, m, f1, spec["process"], spec["update"])
        b = py_outputs(ctx, spec, t, f2, spec["process"], spec["update"], spec["mapping"], spec["rmapping"])
        compare(ctx, spec, a, b, "python:twin-differs")
        ctx.event("py_twin_case")
    else:
        up = spec["update"]
        outs = []
        for mm, mapping, rmap in ((m, {}, {}), (t, spec["mapping"], spec["rmapping"])):
            inv = {v: k for k, v in mapping.items()}
            st_ = sorted(mm["state"])
            orig_sorted = sorted(inv.get(s, s) for s in mm["state"])
            lines = []
            for x in spec["process"]:
                p = {mapping.get(k, k): v for k, v in x["point"].items()}
                # P is indexed by sorted *original* names; re-index to this model's sorted names
                idx = [orig_sorted.index(inv.get(s, s)) for s in st_]
                P = [[x["P"][i][j] for j in idx] for i in idx]
                lines.append(H.process_line(mm, p, P))
            p = {mapping.get(k, k): v for k, v in up["point"].items()}
            idx = [orig_sorted.index(inv.get(s, s)) for s in st_]
            P = [[up["P"][i][j] for j in idx] for i in idx]
            z = {rmap.get(up["key"], {}).get(r, r): v for r, v in up["z"].items()}
            lines.append(H.sensor_line(mm, up["key"], p, P, z))
            pre, cs, info = c02.run_cpp(ctx, spec, mm, lines, "ekf")
            ctx.add_extra("programs_compiled", 1)
            maps = c02.raw_maps(ctx, spec, pre, mm)
            rinv = {v: k for k, v in rmap.get(up["key"], {}).items()}
            named = {}
            sname = {raw: inv.get(nm, nm) for raw, nm in maps["state"].items()}
            cname = {raw: inv.get(nm, nm) for raw, nm in maps["control"].items()}
            rname = {raw: rinv.get(nm, nm) for raw, nm in maps[("reading", up["key"])].items()}
            for i, c in enumerate(cs[:-1]):
                for (a,), v in c["px"].items():
                    named[("x", i, sname[a])] = v
                for (a, b), v in c["pP"].items():
                    named[("P", i, sname[a], sname[b])] = v
                for (a, b), v in c["pj"].items():
                    named[("G", i, sname[a], sname[b])] = v
                for (a, b), v in c.get("cj", {}).items():
                    named[("V", i, sname[a], cname[b])] = v
                for (a, b), v in c.get("pn", {}).items():
                    named[("M", i, cname[a], cname[b])] = v
            c = cs[-1]
            for (a,), v in c["ux"].items():
                named[("ux", sname[a])] = v
            for (a, b), v in c["uP"].items():
                named[("uP", sname[a], sname[b])] = v
            for (a, b), v in c["sj"].items():
                named[("H", rname[a], sname[b])] = v
            for (a, b), v in c["sc"].items():
                named[("Q", rname[a], rname[b])] = v
            for (a,), v in c.get("uy", {}).items():
                named[("y", rname[a])] = v
            outs.append(named)
        compare(ctx, spec, outs[0], outs[1], "cpp:twin-differs")
        ctx.event("cpp_twin_case")
    ch_state = order_changed(m["state"], spec["mapping"])
    ch_ctl = order_changed(m["control"], spec["mapping"]) if len(m["control"]) >= 2 else 0
    ch_rd = max([order_changed(list(rs), spec["rmapping"][k]) for k, rs in m["sensors"].items() if len(rs) >= 2] + [0])
    if ch_state >= 2:
        ctx.event("state_order_permuted")
    if ch_state >= 2 and (ch_ctl >= 2 or ch_rd >= 2):
        ctx.nontrivial(spec)
        ctx.sample({"layer": spec["layer"], "state": m["state"], "renamed_to": spec["mapping"], "readings": spec["rmapping"],
                    "flip_containers": spec["flip"]}, limit=4)


def case(spec, ctx):
    ctxmod.import_formak()
    if spec["layer"] == "api":
        api_case(spec, ctx)
    else:
        twin_case(spec, ctx)


def shard(ctx):
    ctx.run_given(api_cases(), case, examples=ctx.budget["api_examples"], label="api", share=0.25)
    ctx.run_given(twin_cases(cpp=False), case, label="py", share=0.4)
    ctx.run_given(twin_cases(cpp=True), case, examples=ctx.budget["cpp_examples"], label="cpp")
