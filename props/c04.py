"""C04 — prediction step x' = f(x,u), P' = G P G^T + V M V^T; inputs untouched; repeatable."""
from __future__ import annotations

import mpmath as mp
import numpy as np
from hypothesis import strategies as st

from vlib import ctxmod, ekf, models, oracle

PROP_ID = "C04"
LEVEL = "exploration"
RULE = (
    "Hypothesis draws EKF definitions (1..4 states, 0..3 controls with unequal per-control noise, 0..2 calibrations, "
    "no sensors needed) and 4 inputs each: dt of both signs and 0.0, a state, a control and an SPD covariance "
    "Q diag(lambda) Q^T (lambda in [0.1,10]). process_model's state is compared by name with the mpmath evaluation of "
    "the generator's tree and its covariance with G P G^T + V M V^T computed in 60-digit mpmath from central-difference "
    "Jacobians and the named noises (tolerance 1e-9*abs-scale); inputs must be bitwise unchanged and a second call "
    "bit-identical, also when the covariance passed in is the result of a previous call (no aliasing of internal buffers). Non-trivial = >=2 states, >=1 control, V M V^T contributes >=1e-6 of ||P'|| and G is not symmetric "
    "(so G^T P G would differ); in half of the cases process noises and prior are scaled together by 1e-14 / 1e-9 / 1e5 "
    "with the covariance tolerance scaling along; distinct = sha1(model spec)."
)
ASSUMPTIONS = [
    "covariances are symmetric positive definite with condition number <= 100 (as the property's quantifier states)",
    "mpmath linear algebra and the central-difference Jacobians are the reference",
]
BUDGET = {
    "quick": {"shards": 16, "examples": 30, "wall": 110},
    "thorough": {"shards": 16, "examples": 5000, "wall": 900},
}


@st.composite
def cases(draw):
    spec = draw(models.model_specs(calib_types=models.CALIB_TYPES, names=draw(st.sampled_from(["ident", "free"])), n_state=(1, 4), n_control=(0, 3),
                                   n_calib=(0, 2), n_sensors=(0, 1), n_readings=(1, 2), depth=2,
                                   innovation=("none",), template="mixed"))
    n = len(spec["state"])
    inputs = []
    for pt in draw(models.point_sequences(spec, 5, dt=("pos", "neg"), extra_zero_dt=True)):
        inputs.append({"point": pt, "P": draw(ekf.spd(n))})
    # process noises and prior scaled together (floors / clamps / absolute tolerances inside the filter must not matter)
    return {"model": spec, "inputs": inputs, "scale": draw(st.sampled_from([1.0, 1.0, 1.0, 1e-14, 1e-9, 1e5]))}


def case(spec, ctx):
    ctxmod.import_formak()
    m = spec["model"]
    scale = float(spec.get("scale", 1.0))
    if scale != 1.0:
        m = dict(m, process_noise={k_: v_ * scale for k_, v_ in m["process_noise"].items()})
    st_, ct = sorted(m["state"]), sorted(m["control"])
    with ctx.watchdog(20):
        with ctx.formak("compile_ekf", spec):
            f = models.compile_py_ekf(m)

    nontrivial = False
    for inp in spec["inputs"]:
        p, P = inp["point"], (np.array(inp["P"]) * scale).tolist()
        state = ekf.state_of(f, m, p)
        control = ekf.control_of(f, m, p)
        cov = ekf.cov_of(f, P)
        snap = (state.data.copy(), control.data.copy(), cov.data.copy())
        dt = p[m["dt"]]
        with ctx.formak("process_model", spec):
            out = f.process_model(dt, state, cov, control)
            out2 = f.process_model(dt, state, cov, control)
            if not ct:
                out3 = f.process_model(dt, state, cov)
                if not (np.array_equal(out3.state.data, out.state.data)
                        and np.array_equal(out3.covariance.data, out.covariance.data)):
                    ctx.fail("control-none-differs", "process_model without control differs from Control()", spec)
        if not (np.array_equal(snap[0], state.data) and np.array_equal(snap[1], control.data)
                and np.array_equal(snap[2], cov.data)):
            ctx.fail("inputs-modified", "process_model changed its state/control/covariance argument", spec)
        if not (np.array_equal(out.state.data, out2.state.data)
                and np.array_equal(out.covariance.data, out2.covariance.data)):
            ctx.fail("not-repeatable", "two identical calls returned different arrays", spec)
        if not isinstance(out.state, f.State) or not isinstance(out.covariance, f.Covariance):
            ctx.fail("result-type", f"{type(out.state)} {type(out.covariance)}", spec)

        with mp.workdps(oracle.DPS):
            Pm = oracle.mp_from_np(np.array(P, dtype=float))
            xref, Pref, Pscale, G, V = oracle.ref_predict(m, p, Pm)
            refm = oracle.ref_model(m, p)
            xs = np.asarray(out.state.data, dtype=float).reshape(-1)
            for i, s in enumerate(st_):
                if not oracle.close(xs[i], refm[s][0], refm[s][1]):
                    ctx.fail("value:state", f"state {s!r}: got {xs[i]!r} ref {float(refm[s][0])!r} at {p}", spec)
            got = np.asarray(out.covariance.data, dtype=float)
            if got.shape != (len(st_), len(st_)):
                ctx.fail("shape:covariance", f"{got.shape}", spec)
            ok, worst = oracle.mat_close(got, Pref, Pscale, floor=scale)
            if not ok:
                ctx.fail("value:covariance",
                         f"P'[{st_[worst[0]]!r},{st_[worst[1]]!r}] got {worst[2]!r} ref {worst[3]!r}; dt={dt} "
                         f"controls={ct} noises={m['process_noise']}", spec)
            # non-triviality
            if len(st_) >= 2 and ct:
                VMV = Pref - G * Pm * G.T
                nP = max(abs(Pref[i, j]) for i in range(Pref.rows) for j in range(Pref.cols))
                nV = max(abs(VMV[i, j]) for i in range(VMV.rows) for j in range(VMV.cols))
                asym = max(abs(G[i, j] - G[j, i]) for i in range(G.rows) for j in range(G.cols))
                if nV >= 1e-6 * nP and asym > 1e-6:
                    nontrivial = True
        # results are values, not views of the filter's internals: feed the result back in, then look at it again
        keep = (np.array(out.state.data, float).copy(), np.array(out.covariance.data, float).copy())
        with ctx.formak("process_model:chained", spec):
            chained = f.process_model(dt, state, out.covariance, control)
            chained2 = f.process_model(dt, state, out.covariance, control)
        if not (np.array_equal(keep[0], out.state.data) and np.array_equal(keep[1], out.covariance.data)):
            ctx.fail("inputs-modified:chained", "a previous result passed back as input was modified by process_model "
                                                "(the returned covariance/state aliases internal storage)", spec)
        if not (np.array_equal(chained.covariance.data, chained2.covariance.data) and np.array_equal(chained.state.data, chained2.state.data)):
            ctx.fail("not-repeatable:chained", "repeating a call whose inputs are a previous result gives another answer", spec)
        if chained.covariance.data is out.covariance.data or np.shares_memory(chained.covariance.data, out.covariance.data):
            ctx.fail("inputs-modified:chained", "result shares memory with its input", spec)
        ctx.event("dt>0" if dt > 0 else ("dt<0" if dt < 0 else "dt=0"))

    ctx.event(f"controls={len(ct)}")
    ctx.event(f"scale={scale:g}")
    ctx.event(f"states={len(st_)}")
    if nontrivial:
        ctx.nontrivial(m)
        ctx.sample({"state": m["state"], "control": m["control"], "calib": m["calib"], "trees": m["trees"],
                    "process_noise": m["process_noise"], "input": spec["inputs"][0]})


def shard(ctx):
    ctx.run_given(cases(), case)
