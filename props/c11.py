"""C11 — tick = fold readings in order, hold at last reading, report at output time (Python and C++ runtimes)."""
from __future__ import annotations

import copy
import os

import numpy as np
from hypothesis import strategies as st

from vlib import cppharness as H
from vlib import ctxmod, ekf, models, rt

PROP_ID = "C11"
LEVEL = "exploration"
RULE = (
    "Histories of 1..5 ticks, each with an output time and None / [] / 1..4 readings whose timestamps are in any order "
    "relative to each other, to the held time and to the output time (same generator as C10), are run through the real "
    "Python runtime.ManagedFilter and the real C++ ManagedFilter.h with recording filters whose 'estimate' is a token "
    "naming the call that produced it (so data-flow, not only call order, is observed). Oracle (a) reference fold: for "
    "each reading in the given order move the held estimate to its timestamp, apply its update, hold; finally return, "
    "without holding it, the held estimate moved to the output time -- the recorded call sequence must be exactly that "
    "(each call consuming the token the fold prescribes; consecutive prediction steps collapsed by the C10 predicate); "
    "(b) Python and C++ traces of the same history equal after collapsing; (c) value level: a generated nonlinear EKF "
    "under the Python runtime equals the fold computed by hand with ekf.process_model/sensor_model; (d) metamorphic: "
    "inserting read-only ticks anywhere leaves every later result bit-identical; (e) a control model ticked without "
    "control raises TypeError (Python) / fails to compile (C++, two fixed programs), and ticking a control-less model "
    "with control fails to compile. Non-trivial = >=2 ticks, one with >=2 readings whose timestamps are not sorted, "
    "and a read-only tick before a later tick; distinct = sha1(history)."
)
ASSUMPTIONS = [
    "recording Impl stands in for a generated C++ filter (C12 drives real generated filters)",
    "prediction schedules are compared up to the C10 validity predicate (any valid schedule matches)",
]
BUDGET = {
    "quick": {"shards": 16, "examples": 250, "wall": 100, "value_examples": 6},
    "thorough": {"shards": 16, "examples": 120000, "wall": 900, "value_examples": 1500},
}

NEG_TESTS = {
    # name: (HasCtl of the Impl, call expression) -- each must FAIL to compile
    "control-model-ticked-without-control": (True, "mf.tick(1.0)"),
    "control-model-ticked-with-readings-without-control": (True, "mf.tick(1.0, std::vector<MF::StampedReading>{})"),
    "controlless-model-ticked-with-control": (False, "mf.tick(1.0, Ctl{})"),
}
POS_TESTS = {"control-model-ticked-with-control": (True, "mf.tick(1.0, Ctl{})"),
             "controlless-model-ticked": (False, "mf.tick(1.0)")}
NEG_SRC = r"""
#include <formak/runtime/ManagedFilter.h>
#include <type_traits>
struct SV { int token = 0; };
struct Ctl { double u = 0; };
template <bool HasCtl> struct F;
template <> struct F<true> {
  struct StampedReadingBase { virtual ~StampedReadingBase() = default; virtual SV sensor_model(const F&, const SV&) const = 0; };
  struct Tag { using StateAndVarianceT = SV; using CalibrationT = std::false_type; using ControlT = Ctl;
               using StampedReadingBaseT = StampedReadingBase; static constexpr double max_dt_sec = 0.1; };
  SV process_model(double, const SV& s, const Ctl&) const { return s; }
};
template <> struct F<false> {
  struct StampedReadingBase { virtual ~StampedReadingBase() = default; virtual SV sensor_model(const F&, const SV&) const = 0; };
  struct Tag { using StateAndVarianceT = SV; using CalibrationT = std::false_type; using ControlT = std::false_type;
               using StampedReadingBaseT = StampedReadingBase; static constexpr double max_dt_sec = 0.1; };
  SV process_model(double, const SV& s) const { return s; }
};
int main() { using MF = formak::runtime::ManagedFilter<F<@CTL@>>; MF mf(0.0, SV{}); auto r = @CALL@; return r.token; }
"""


def prepare(tier, seed):
    st_ = rt.prepare(tier, seed, tag="c11")
    # (e) compile-time clause: fixed programs
    st_["neg"] = {}
    for name, (ctl, call) in {**NEG_TESTS, **POS_TESTS}.items():
        src = os.path.join(st_["wd"], f"neg_{name}.cpp")
        with open(src, "w") as fh:
            fh.write(NEG_SRC.replace("@CTL@", "true" if ctl else "false").replace("@CALL@", call))
        try:
            H.compile_cpp(st_["wd"], [src], out=f"neg_{name}")
            st_["neg"][name] = "compiles"
        except H.CppError as e:
            st_["neg"][name] = "fails" if e.stage == "compile" else e.stage
    return st_


def finish(state):
    rt.finish(state)


def collapse(events):
    """per tick: list of ('move', sum dt) / ('s', key) / ('r',)"""
    out = []
    for te in rt.split_ticks(events):
        seq, acc, has = [], 0.0, False
        for e in te:
            if e[0] == "p":
                acc += e[1]
                has = True
            else:
                seq.append(("move", acc))
                acc, has = 0.0, False
                seq.append(("s", e[1]) if e[0] == "s" else ("r",))
        out.append(seq)
    return out


def check_trace(ctx, spec, side, events, max_dt):
    ref = rt.reference_fold(spec)
    ticks = rt.split_ticks(events)
    if len(ticks) != len(ref):
        ctx.fail(f"{side}:trace-shape", f"{len(ticks)} ticks recorded for {len(ref)} issued", spec)
    held = 0  # token of the initial estimate
    for i, (te, rs) in enumerate(zip(ticks, ref)):
        prob, held, _ = rt.check_moves(te, rs, max_dt, held)
        if prob:
            kind = ("data-flow" if "data-flow" in prob else "order" if "order of readings" in prob or "expected sensor" in prob
                    else "returned" if "tick returned" in prob else "extra-call" if "extra call" in prob else "schedule")
            ctx.fail(f"{side}:{kind}", f"tick {i}: {prob}\n  recorded: {te[:12]}\n  prescribed: {rs}", spec)


def trace_case(spec, ctx):
    st_ = ctx.state
    max_dt = spec["max_dt"]
    with ctx.formak("python:tick", spec):
        ev, mf = rt.run_py_history(spec, max_dt)
    check_trace(ctx, spec, "python", ev, max_dt)
    # held time after the history = timestamp of the last reading (or the start time)
    last = spec["t0"]
    for t in spec["ticks"]:
        if t["readings"]:
            last = t["readings"][-1][0]
    if getattr(mf, "current_time", last) != last:
        ctx.fail("python:held-time", f"runtime holds time {mf.current_time!r}, last reading was at {last!r}", spec)

    if st_["compile_error"]:
        ctx.fail("cpp:runtime-does-not-compile", st_["compile_error"], spec)
    if st_["table"][spec["I"]] == max_dt:
        cev = rt.run_cpp_history(st_, spec)
        check_trace(ctx, spec, "cpp", cev, max_dt)
        a, b = collapse(ev), collapse(cev)
        same = len(a) == len(b) and all(
            len(x) == len(y) and all(p[0] == q[0] and (abs(p[1] - q[1]) < 2e-9 if p[0] == "move" else p[1:] == q[1:])
                                     for p, q in zip(x, y)) for x, y in zip(a, b))
        if not same:
            ctx.fail("python-vs-cpp:trace", f"python {a}\ncpp {b}", spec)

    # a second, independent managed filter ticked in between must not influence this one (no state shared by instances)
    with ctx.formak("python:tick:interleaved", spec):
        ev_i, _ = rt.run_py_history(spec, max_dt, interloper=True)
    if ev_i != ev:
        ctx.fail("python:instances-share-state", "the recorded calls differ when another ManagedFilter instance is ticked in between", spec)

    # (d) metamorphic: read-only ticks inserted anywhere change nothing later
    if spec.get("inserts"):
        h2 = copy.deepcopy(spec)
        for pos, out in sorted(spec["inserts"], key=lambda x: -x[0]):
            h2["ticks"].insert(min(pos, len(h2["ticks"])), {"out": out, "readings": None, "inserted": True})
        with ctx.formak("python:tick", spec):
            ev2, _ = rt.run_py_history(h2, max_dt)
        base = [c for c in collapse(ev)]
        with_ins = [c for c, t in zip(collapse(ev2), h2["ticks"]) if not t.get("inserted")]
        if len(base) != len(with_ins) or any(
                len(x) != len(y) or any(p[0] != q[0] or (p[0] == "move" and abs(p[1] - q[1]) > 2e-9) or (p[0] == "s" and p != q)
                                        for p, q in zip(x, y)) for x, y in zip(base, with_ins)):
            ctx.fail("python:read-only-tick-changed-later-ticks", f"without {base}\nwith inserted {with_ins}", spec)
        check_trace(ctx, h2, "python", ev2, max_dt)
        if st_["table"][spec["I"]] == max_dt and not st_["compile_error"]:
            check_trace(ctx, h2, "cpp", rt.run_cpp_history(st_, h2), max_dt)

    # (e) control required (Python)
    if spec["ctl"]:
        from formak import runtime

        rec = rt.RecordingFilter(max_dt, 1)
        mfx = runtime.ManagedFilter(rec, spec["t0"], 0, "cov")
        try:
            mfx.tick(spec["ticks"][0]["out"])
            accepted = True
        except Exception:  # "cannot be ticked without them": any error (TypeError today)
            accepted = False
        if accepted:
            ctx.fail("python:control-not-required", "tick() without control accepted on a model with control inputs", spec)
        if rec.events:
            ctx.fail("python:control-not-required", "filter called before the TypeError", spec)

    ticks = spec["ticks"]
    unsorted = any(t["readings"] and len(t["readings"]) >= 2 and
                   [r[0] for r in t["readings"]] != sorted(r[0] for r in t["readings"]) for t in ticks)
    ro_before = any(ticks[i]["readings"] is None and i + 1 < len(ticks) for i in range(len(ticks))) or bool(spec.get("inserts"))
    ctx.event(f"variant:cal={int(spec['cal'])},ctl={int(spec['ctl'])}")
    if unsorted:
        ctx.event("unsorted_reading_timestamps")
    if any(t["readings"] and any(r[0] > t["out"] for r in t["readings"]) for t in ticks):
        ctx.event("reading_after_output_time")
    if len(ticks) >= 2 and unsorted and ro_before:
        ctx.nontrivial(spec)
        ctx.sample({"max_dt": max_dt, "t0": spec["t0"], "ticks": ticks, "ctl": spec["ctl"], "cal": spec["cal"]}, limit=3)


# ---- (c) value level ---------------------------------------------------------------------------


@st.composite
def value_cases(draw):
    m = draw(models.model_specs(names="ident", n_state=(2, 3), n_control=(0, 1), n_calib=(0, 1), n_sensors=(1, 2),
                                n_readings=(1, 2), depth=2, sensor_depth=2, euler="bounded", innovation=("none", "k"),
                                allow_positive=False))
    n = len(m["state"])
    max_dt = m["config"]["max_dt"]
    t0 = draw(st.sampled_from([0.0, 10.0, -3.0]))
    held = t0
    ticks = []
    for _ in range(draw(st.integers(2, 4))):
        readings = None
        if draw(st.booleans()):
            readings = []
            for _ in range(draw(st.integers(1, 3))):
                ts = held + draw(st.sampled_from([-1.5, -0.5, 0.0, 0.5, 1.5, 2.25])) * max_dt
                key = draw(st.sampled_from(sorted(m["sensors"])))
                readings.append({"ts": ts, "key": key, "z": {r: draw(models.signed_val()) for r in m["sensors"][key]}})
            held = readings[-1]["ts"]
        ticks.append({"out": held + draw(st.sampled_from([0.5, 1.5, 2.5, -0.5])) * max_dt, "readings": readings})
    return {"layer": "value", "model": m, "t0": t0, "ticks": ticks, "x0": draw(models.points(m)),
            "P0": draw(ekf.spd(n, lam=(0.5, 2.0)))}


class Proxy:
    """delegates to the real EKF and records the schedule the runtime chose"""

    def __init__(self, f):
        self._f = f
        self.config = f.config
        self.control_size = f.control_size
        self.log = []

    def make_reading(self, key, **kw):
        return self._f.make_reading(key, **kw)

    def process_model(self, dt, state, covariance, control=None):
        self.log.append(("p", float(dt)))
        return self._f.process_model(dt, state, covariance, control)

    def sensor_model(self, state, covariance, *, sensor_key, sensor_reading):
        self.log.append(("s", sensor_key))
        return self._f.sensor_model(state, covariance, sensor_key=sensor_key, sensor_reading=sensor_reading)


def value_case(spec, ctx):
    from formak import runtime

    m = spec["model"]
    with ctx.watchdog(30):
        with ctx.formak("compile_ekf", spec):
            f = models.compile_py_ekf(m)
    p = spec["x0"]
    control = ekf.control_of(f, m, p) if m["control"] else None
    x0, P0 = ekf.state_of(f, m, p), ekf.cov_of(f, spec["P0"])
    proxy = Proxy(f)
    mf = runtime.ManagedFilter(proxy, spec["t0"], x0, P0)
    max_dt = m["config"]["max_dt"]

    held_t, hx, hP = spec["t0"], x0, P0
    for i, t in enumerate(spec["ticks"]):
        rs = None
        if t["readings"] is not None:
            # both documented ways of handing over a reading: named values, or a ready-made Reading object
            rs = [runtime.StampedReading(r["ts"], r["key"], **r["z"]) if (i + j) % 2 == 0 else
                  runtime.StampedReading(r["ts"], r["key"], _data=f.make_reading(r["key"], **r["z"]))
                  for j, r in enumerate(t["readings"])]
        proxy.log.clear()
        try:
            got = mf.tick(t["out"], control=control, readings=rs)
        except (ctxmod.CaseTimeout, ctxmod.StopSearch):
            raise
        except Exception as tick_error:
            # The FILTER refused to go on inside the tick (typically assert_valid_covariance after the covariance grew by
            # 1e8 along an unstable backward move: C09's subject, not C11's). The tick is still judged: the calls it made,
            # repeated by hand from the held estimate, must fail in the same call with the same exception type.
            x_, P_, k_, err_at = hx, hP, 0, None
            for n_, e in enumerate(list(proxy.log)):
                try:
                    if e[0] == "p":
                        x_, P_ = f.process_model(e[1], x_, P_, control)
                    else:
                        r_ = (t["readings"] or [])[k_]
                        k_ += 1
                        x_, P_ = f.sensor_model(x_, P_, sensor_key=r_["key"], sensor_reading=f.make_reading(r_["key"], **r_["z"]))
                except Exception as hand_error:
                    err_at = (n_, type(hand_error))
                    break
            if err_at == (len(proxy.log) - 1, type(tick_error)):
                ctx.skip(f"filter-raised-alike-in-tick-and-by-hand:{type(tick_error).__name__}")
            with ctx.formak("python:tick:real-ekf", spec):
                raise tick_error
        # schedule the runtime reported, split at the sensor updates
        segs, cur = [], []
        for e in proxy.log:
            if e[0] == "p":
                cur.append(e[1])
            else:
                segs.append(cur)
                cur = []
        segs.append(cur)
        readings = t["readings"] or []
        if len(segs) != len(readings) + 1:
            ctx.fail("value:wrong-number-of-updates", f"tick {i}: {len(segs) - 1} sensor updates for {len(readings)} readings", spec)
        with ctx.formak("by-hand-fold", spec):
            for r, steps in zip(readings, segs):
                prob = rt.move_problem(held_t, r["ts"], steps, max_dt)
                if prob:
                    ctx.fail("value:schedule", f"tick {i}: {prob}", spec)
                for d in steps:
                    hx, hP = f.process_model(d, hx, hP, control)
                hx, hP = f.sensor_model(hx, hP, sensor_key=r["key"], sensor_reading=f.make_reading(r["key"], **r["z"]))
                held_t = r["ts"]
            prob = rt.move_problem(held_t, t["out"], segs[-1], max_dt)
            if prob:
                ctx.fail("value:schedule", f"tick {i} (output move): {prob}", spec)
            ex, eP = hx, hP
            for d in segs[-1]:
                ex, eP = f.process_model(d, ex, eP, control)
        gx, gP = np.asarray(got.state.data, float), np.asarray(got.covariance.data, float)
        rx, rP = np.asarray(ex.data, float), np.asarray(eP.data, float)
        if not (np.array_equal(gx, rx) and np.array_equal(gP, rP)):
            ctx.fail("value:tick-vs-by-hand-fold", f"tick {i}: state {gx.ravel()} vs by hand {rx.ravel()}; max |dP|={np.max(np.abs(gP - rP))!r}", spec)
    ctx.event("value_case")
    if any(t["readings"] and len(t["readings"]) >= 2 for t in spec["ticks"]):
        ctx.nontrivial(spec)
        ctx.sample({"layer": "value", "state": m["state"], "ticks": spec["ticks"], "max_dt": max_dt}, limit=4)


def case(spec, ctx):
    ctxmod.import_formak()
    if spec.get("layer") == "value":
        value_case(spec, ctx)
    elif spec.get("layer") == "compile-time":
        got = ctx.state["neg"].get(spec["name"])
        if got != spec["expect"]:
            ctx.fail(f"cpp:compile-time:{spec['name']}", f"program `{spec['call']}` {got}, expected: {spec['expect']}", spec)
    else:
        trace_case(spec, ctx)


@st.composite
def trace_cases(draw, table):
    h = draw(rt.histories(table))
    ins = []
    if draw(st.booleans()):
        for _ in range(draw(st.integers(1, 3))):
            ins.append([draw(st.integers(0, len(h["ticks"]))), h["t0"] + draw(rt.signed_q()) * h["max_dt"]])
    h["inserts"] = ins
    return h


def shard(ctx):
    if ctx.shard == 0:
        for name, (ctl, call) in NEG_TESTS.items():
            ctx.run_one(case, {"layer": "compile-time", "name": name, "call": call, "expect": "fails"})
        for name, (ctl, call) in POS_TESTS.items():
            ctx.run_one(case, {"layer": "compile-time", "name": name, "call": call, "expect": "compiles"})
    ctx.run_given(trace_cases(ctx.state["table"]), case, label="trace", share=0.5)
    ctx.run_given(value_cases(), case, examples=ctx.budget["value_examples"], label="value")
