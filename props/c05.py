"""C05 — sensor update is the Kalman correction, for any number of readings."""
from __future__ import annotations

import mpmath as mp
import numpy as np
from hypothesis import strategies as st

from vlib import ctxmod, ekf, models, oracle

PROP_ID = "C05"
LEVEL = "exploration"
RULE = (
    "Hypothesis draws EKF definitions with 1..3 sensors of 1..4 readings (unequal per-reading noise; readings need not "
    "equal states; +-calibration), and per case 4 updates (consecutive ones may share the state or the covariance): a state, an SPD covariance (rescaled by a power of two so "
    "that ||H P H^T|| <= 100*min noise) and a reading that is not rejected (filtering disabled, or normalised innovation "
    "targeted at 0.2x / 0.9x the threshold using the reference S); in 4 of 7 cases noises and prior are scaled together by "
    "1e-14 / 1e-9 / 1e-4 / 1e5 (tolerances for S and P scale with it). sensor_model's state/covariance are compared by name "
    "with the textbook update in 60-digit mpmath (x+K y, P-K H P, S=H P H^T+Q, K=P H^T S^-1, Q=diag of the named noises); "
    "the recorded innovation and innovation covariance with y and S; plus: reading equal to the prediction leaves the "
    "state bitwise unchanged, posterior symmetric, prior - posterior PSD (1e-9 relative), inputs unchanged. "
    "Non-trivial = the updated sensor has >=2 readings with unequal noise and #readings != #states; distinct = "
    "sha1(model spec)."
)
ASSUMPTIONS = [
    "covariances SPD with bounded condition number; cond(S) bounded by the rescaling rule",
    "mpmath linear algebra + central-difference Jacobians are the reference",
]
BUDGET = {
    "quick": {"shards": 16, "examples": 24, "wall": 110},
    "thorough": {"shards": 16, "examples": 4500, "wall": 900},
}


@st.composite
def cases(draw):
    spec = draw(models.model_specs(calib_types=models.CALIB_TYPES, names=draw(st.sampled_from(["ident", "free"])), n_state=(1, 4), n_control=(0, 2),
                                   n_calib=(0, 2), n_sensors=(1, 3), n_readings=(1, 4), depth=2, sensor_depth=2))
    n = len(spec["state"])
    ups = []
    for i in range(4):
        key = draw(st.sampled_from(sorted(spec["sensors"])))
        share = draw(st.sampled_from(["none", "point", "P", "none"])) if ups else "none"
        ups.append({
            "key": key,
            "point": ups[-1]["point"] if share == "point" else draw(models.points(spec)),
            "P": ups[-1]["P"] if share == "P" else draw(ekf.spd(n)),
            "dir": [draw(st.floats(-1, 1, allow_nan=False)) for _ in range(4)],
            "tau": draw(st.sampled_from([0.2, 0.9])),
            "free_nis": draw(st.floats(0.01, 50.0, allow_nan=False)),
        })
    # "all positive per-reading noise assignments": the whole problem (noises and prior) scaled by a power of ten,
    # so that clamps / floors / absolute tolerances inside the filter show up
    scale = draw(st.sampled_from([1.0, 1.0, 1.0, 1e-14, 1e-9, 1e-4, 1e5]))
    return {"model": spec, "updates": ups, "scale": scale, "shadow_after": draw(st.sampled_from([False, False, True]))}


def case(spec, ctx):
    ctxmod.import_formak()
    m = spec["model"]
    scale = float(spec.get("scale", 1.0))
    if scale != 1.0:
        m = dict(m, sensor_noises={kk: {r: v * scale for r, v in rs.items()} for kk, rs in m["sensor_noises"].items()})
    st_ = sorted(m["state"])
    k = m["config"]["innov"]
    with ctx.watchdog(20):
        with ctx.formak("compile_ekf", spec):
            f = models.compile_py_ekf(m)
        if spec.get("shadow_after"):
            # a second filter with the same symbols and the same sensor / reading names but other expressions is built in
            # the same process AFTER this one; this one is then used: instances must not share compiled state
            try:
                models.compile_py_ekf(models.shadow_of(m, "sensors"))
                ctx.event("shadow_filter_built_after")
            except ctxmod.CaseTimeout:
                raise
            except Exception:
                ctx.event("shadow_not_accepted")

    nontrivial = False
    for up in spec["updates"]:
        key, p = up["key"], up["point"]
        rd = sorted(m["sensors"][key])
        msize = len(rd)
        P = ekf.rescale_for_sensor(m, key, p, (np.array(up["P"]) * scale).tolist())
        nis_target = up["free_nis"] if k is None else float(up["tau"] * ekf.threshold(k, msize))
        z = ekf.targeted_reading(m, key, p, P, up["dir"], nis_target)

        state = ekf.state_of(f, m, p)
        cov = ekf.cov_of(f, P)
        snap = (state.data.copy(), cov.data.copy())
        with ctx.formak("sensor_model", spec):
            reading = f.make_reading(key, **z)
            rsnap = reading.data.copy()
            out = f.sensor_model(state, cov, sensor_key=key, sensor_reading=reading)
            rec_y = np.array(f.innovations[key], dtype=float)
            rec_S = np.array(f.sensor_prediction_uncertainty[key], dtype=float)
        if not (np.array_equal(snap[0], state.data) and np.array_equal(snap[1], cov.data)
                and np.array_equal(rsnap, reading.data)):
            ctx.fail("inputs-modified", "sensor_model changed its state/covariance/reading argument", spec)

        with mp.workdps(oracle.DPS):
            Pm = oracle.mp_from_np(np.array(P, dtype=float))
            state_pt = {s: p[s] for s in m["state"]}
            ref = oracle.ref_update(m, key, state_pt, Pm, z)
            if rec_S.shape != (msize, msize):
                ctx.fail("shape:S", f"recorded innovation covariance has shape {rec_S.shape}, expected {(msize, msize)}", spec)
            ok, w = oracle.mat_close(rec_S, ref["S"], ref["S_scale"], floor=scale)
            if not ok:
                ctx.fail("value:S", f"S[{rd[w[0]]!r},{rd[w[1]]!r}] got {w[2]!r} ref {w[3]!r}; noises {m['sensor_noises'][key]}", spec)
            if rec_y.shape != (msize, 1):
                ctx.fail("shape:innovation", f"{rec_y.shape}", spec)
            yscale = mp.matrix([[abs(ref["hx"][i]) + abs(mp.mpf(z[r]))] for i, r in enumerate(rd)])
            ok, w = oracle.mat_close(rec_y, ref["y"], yscale)
            if not ok:
                ctx.fail("value:innovation", f"innovation[{rd[w[0]]!r}] got {w[2]!r} ref {w[3]!r}", spec)
            xs = np.asarray(out.state.data, dtype=float).reshape(-1, 1)
            Pp = np.asarray(out.covariance.data, dtype=float)
            if float(ref["nis"]) > (float(ekf.threshold(k, msize)) if k is not None else float("inf")):
                ctx.skip("targeted-reading-overshot")  # cannot happen for tau<=0.9; counted if it does
            ok, w = oracle.mat_close(xs, ref["x"], ref["x_scale"])
            if not ok:
                ctx.fail("value:state", f"x+[{st_[w[0]]!r}] got {w[2]!r} ref {w[3]!r} (sensor {key!r}, m={msize})", spec)
            if Pp.shape != (len(st_), len(st_)):
                ctx.fail("shape:covariance", f"{Pp.shape}", spec)
            ok, w = oracle.mat_close(Pp, ref["P"], ref["P_scale"], floor=scale)
            if not ok:
                ctx.fail("value:covariance", f"P+[{st_[w[0]]!r},{st_[w[1]]!r}] got {w[2]!r} ref {w[3]!r} (sensor {key!r}, m={msize})", spec)

        # results are values, not views: feed the resulting covariance back in and look at the result again
        keep = (np.array(out.state.data, float).copy(), np.array(out.covariance.data, float).copy())
        with ctx.formak("sensor_model:chained", spec):
            again = f.sensor_model(state, out.covariance, sensor_key=key, sensor_reading=f.make_reading(key, **z))
        if not (np.array_equal(keep[0], out.state.data) and np.array_equal(keep[1], out.covariance.data)):
            ctx.fail("inputs-modified:chained", "a previous result passed back as input was modified by sensor_model", spec)
        if again.covariance is not out.covariance and np.shares_memory(again.covariance.data, out.covariance.data):
            ctx.fail("inputs-modified:chained", "result shares memory with its input although an update took place", spec)

        # consequences
        nP = max(1e-300, float(np.max(np.abs(np.array(P)))))
        if np.max(np.abs(Pp - Pp.T)) > 1e-9 * nP:
            ctx.fail("posterior-asymmetric", f"max |P+ - P+^T| = {np.max(np.abs(Pp - Pp.T))!r}, ||P||={nP!r}", spec)
        d = np.array(P) - (Pp + Pp.T) / 2
        if np.min(np.linalg.eigvalsh(d)) < -1e-9 * nP:
            ctx.fail("posterior-exceeds-prior", f"min eig(P - P+) = {np.min(np.linalg.eigvalsh(d))!r}", spec)
        with ctx.formak("sensor_model:zero-innovation", spec):
            pred = f.sensor_models[key].model(state)
            out0 = f.sensor_model(state, cov, sensor_key=key, sensor_reading=pred)
        if not np.array_equal(np.asarray(out0.state.data), snap[0]):
            ctx.fail("zero-innovation-moves-state", f"{np.asarray(out0.state.data).ravel()} vs {snap[0].ravel()}", spec)
        # ... but the covariance is still corrected: P - K H P does not depend on the reading
        ok, w = oracle.mat_close(np.asarray(out0.covariance.data, float), ref["P"], ref["P_scale"], floor=scale)
        if not ok:
            ctx.fail("zero-innovation-covariance", f"reading equal to the prediction: P+[{st_[w[0]]!r},{st_[w[1]]!r}] got {w[2]!r} ref {w[3]!r}", spec)

        noises = [m["sensor_noises"][key][r] for r in rd]
        if msize >= 2 and len(set(noises)) == len(noises) and msize != len(st_):
            nontrivial = True
        ctx.event(f"readings={msize}")
        ctx.event("filtering_disabled" if k is None else f"tau={up['tau']}")

    ctx.event(f"states={len(st_)}")
    ctx.event(f"scale={scale:g}")
    ctx.event("has_calibration" if m["calib"] else "no_calibration")
    if nontrivial:
        ctx.nontrivial(m)
        ctx.sample({"state": m["state"], "calib": m["calib"], "sensor_trees": m["sensors"],
                    "sensor_noises": m["sensor_noises"], "innovation_filtering": k, "update": spec["updates"][0]})


def shard(ctx):
    ctx.run_given(cases(), case)
