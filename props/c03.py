"""C03 — Python filter Jacobians are the true partial derivatives, laid out by name."""
from __future__ import annotations

import mpmath as mp
import numpy as np
from hypothesis import strategies as st

from vlib import ctxmod, ekf, models, oracle

PROP_ID = "C03"
LEVEL = "exploration"
RULE = (
    "Hypothesis draws EKF definitions emphasising rectangular shapes (1..4 states, 0..3 controls, 0..2 calibrations, "
    "1..3 sensors of 1..4 readings so readings != states and != states+calibrations in most cases) and 5 points. "
    "process_jacobian / control_jacobian / sensor_jacobian are compared entry-wise, by (row name, column name), with "
    "60-digit central differences of the generator's own tree evaluator (never sympy.diff); shapes and the sorted-by-name "
    "layout of arglist_state/arglist_control/readings are required. Non-trivial = some Jacobian of the case is "
    "non-square with >=2 rows and its reference rows are pairwise different with >=3 non-zero entries (a transposition or stride error must "
    "show); distinct = sha1 of the model spec."
)
ASSUMPTIONS = [
    "central differences with h=1e-20 at 60 digits are the true partial derivatives (truncation ~1e-40)",
    "tolerance 1e-9*max(1, derivative abs-scale) tied to the generator's bounded denominators",
    "smooth total expressions only (the grammar has no kinks)",
]
BUDGET = {
    "quick": {"shards": 16, "examples": 30, "wall": 110},
    "thorough": {"shards": 16, "examples": 5000, "wall": 900},
}


@st.composite
def cases(draw):
    spec = draw(models.model_specs(names=draw(st.sampled_from(["ident", "free"])), n_state=(1, 4), n_control=(0, 3),
                                   n_calib=(0, 2), n_sensors=(1, 3), n_readings=(1, 4), depth=2, sensor_depth=draw(st.sampled_from([2, 2, 3])), template="mixed"))
    pts = draw(models.point_sequences(spec, 5, dt=("pos", "neg")))
    return {"model": spec, "points": pts, "shadow_after": draw(st.sampled_from([False, False, True]))}


def check_matrix(ctx, spec, what, got, rows, cols, ref, shape_expected):
    if tuple(got.shape) != tuple(shape_expected):
        ctx.fail(f"shape:{what}", f"{got.shape} expected {shape_expected}", spec)
    for i, r in enumerate(rows):
        for j, c in enumerate(cols):
            rv, ds = ref[(r, c)]
            if not oracle.close(got[i, j], rv, ds):
                ctx.fail(
                    f"value:{what}",
                    f"{what}[{r!r},{c!r}] at [{i},{j}] got {got[i, j]!r} ref {float(rv)!r} (dscale {ds:.3g}); shape {got.shape}",
                    spec,
                )


def distinct_entries(ref, rows, cols):
    """rows pairwise different and >=3 non-zero entries: a stride/transposition error must change some entry"""
    mat = [[float(ref[(r, c)][0]) for c in cols] for r in rows]
    nz = sum(1 for row in mat for v in row if abs(v) > 1e-9)
    for i in range(len(mat)):
        for j in range(i + 1, len(mat)):
            if all(abs(a - b) <= 1e-6 * max(1.0, abs(a)) for a, b in zip(mat[i], mat[j])):
                return False
    return nz >= 3


def case(spec, ctx):
    ctxmod.import_formak()
    m = spec["model"]
    st_, ct, ck = sorted(m["state"]), sorted(m["control"]), sorted(m["calib"])
    with ctx.watchdog(20):
        with ctx.formak("compile_ekf", spec):
            f = models.compile_py_ekf(m)
        if spec.get("shadow_after"):
            # a second filter with the same symbols and the same sensor / reading names but other expressions is built in
            # the same process AFTER this one; this one is then used: instances must not share compiled state
            try:
                models.compile_py_ekf(models.shadow_of(m, "sensors"))
                ctx.event("shadow_filter_built_after")
            except ctxmod.CaseTimeout:
                raise
            except Exception:
                ctx.event("shadow_not_accepted")

    if [str(s) for s in f.arglist_state] != st_:
        ctx.fail("layout:arglist_state", f"{f.arglist_state} vs sorted {st_}", spec)
    if [str(s) for s in f.arglist_control] != ct:
        ctx.fail("layout:arglist_control", f"{f.arglist_control} vs sorted {ct}", spec)
    for key in m["sensors"]:
        if [str(r) for r in f.sensor_models[key].readings] != sorted(m["sensors"][key]):
            ctx.fail("layout:readings", f"{f.sensor_models[key].readings} vs sorted {sorted(m['sensors'][key])}", spec)

    nontrivial = False
    earlier = []
    for p in spec["points"]:
        for what, arr, snap in earlier:
            if not np.array_equal(arr, snap):
                ctx.fail("earlier-result-changed", f"the array returned by {what} changed when the filter was evaluated at another point", spec)
        env = oracle.env_of(m, p)
        with mp.workdps(oracle.DPS):
            env = {k: mp.mpf(v) for k, v in env.items()}
        state = ekf.state_of(f, m, p)
        control = ekf.control_of(f, m, p)
        dt = p[m["dt"]]
        with ctx.formak("process_jacobian", spec):
            G = np.asarray(f.process_jacobian(dt, state, control))
        ref = oracle.ref_jac({s: m["trees"][s] for s in st_}, st_ + ct, env)
        check_matrix(ctx, spec, "process_jacobian", G, st_, st_, ref, (len(st_), len(st_)))
        with ctx.formak("control_jacobian", spec):
            V = np.asarray(f.control_jacobian(dt, state, control))
        check_matrix(ctx, spec, "control_jacobian", V, st_, ct, ref, (len(st_), len(ct)))
        earlier += [("process_jacobian", G, G.copy()), ("control_jacobian", V, V.copy())]
        if len(ct) != len(st_) and len(st_) >= 2 and ct and distinct_entries(ref, st_, ct):
            nontrivial = True
        for key in sorted(m["sensors"]):
            rd = sorted(m["sensors"][key])
            with ctx.formak("sensor_jacobian", spec):
                Hm = np.asarray(f.sensor_jacobian(key, state))
            href = oracle.ref_jac({r: m["sensors"][key][r] for r in rd}, st_, env)
            check_matrix(ctx, spec, "sensor_jacobian", Hm, rd, st_, href, (len(rd), len(st_)))
            earlier.append(("sensor_jacobian", Hm, Hm.copy()))
            if len(rd) >= 2 and len(rd) != len(st_):
                ctx.event("sensor_rectangular")
                if len(rd) != len(st_) + len(ck):
                    ctx.event("sensor_rows!=states+calibrations")
                if distinct_entries(href, rd, st_):
                    nontrivial = True

    ctx.event(f"states={len(st_)}")
    ctx.event(f"controls={len(ct)}")
    ctx.event("has_calibration" if ck else "no_calibration")
    if nontrivial:
        ctx.nontrivial(m)
        ctx.sample({"state": m["state"], "control": m["control"], "calib": m["calib"],
                    "sensors": {k: sorted(v) for k, v in m["sensors"].items()},
                    "trees": m["trees"], "sensor_trees": m["sensors"], "point": spec["points"][0]})


def shard(ctx):
    ctx.run_given(cases(), case)
