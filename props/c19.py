"""C19 — strapdown IMU reference model obeys rigid-body kinematics."""
from __future__ import annotations

import contextlib
import io

import mpmath as mp
from hypothesis import strategies as st

from vlib import ctxmod

PROP_ID = "C19"
LEVEL = "exploration"
RULE = (
    "Hypothesis draws points: orientation and mounting quaternions as direction x norm (norm in [0.3,3], exactly unit in "
    "~30 %), accelerometer bias, gravity, dt (both signs), gyro, specific force, velocity and position in bounded boxes. "
    "Oracle = hand-written Hamilton-product kinematics in 40-digit mpmath: q = q_ori (x) q_cal; rates = vec(q (x) (0,w) "
    "(x) q*) (carries |q|^2); accel = vec(q (x) (0,f-b) (x) q*)/|q|^2 + (0,0,-g); v' = v + a dt; x' = x + v dt + a dt^2/2; "
    "q_ori' = q_ori + (q_ori (x) (0,w)) dt/2. Compared (1e-9*abs-scale) with (a) every expression of "
    "strapdown_imu.state_model evaluated by sympy evalf at the named inputs and (b) python.compile(symbolic_model, "
    "calibration_map).model(dt, State, Control) by state name, with CSE on and off (compiled once per shard and "
    "calibration-map is re-bound per point through the model's calibration vector). Non-trivial = non-identity mounting, "
    "non-zero bias, all gyro and accelerometer axes non-zero, orientation not axis-aligned; distinct = sha1(point)."
)
ASSUMPTIONS = [
    "quaternion norms bounded away from 0 ([0.3,3]); inputs in bounded boxes",
    "the compiled model's calibration values are swapped per point by rebuilding its calibration vector from the public arglist order (same object python.compile builds)",
]
BUDGET = {
    "quick": {"shards": 16, "examples": 60, "wall": 110},
    "thorough": {"shards": 16, "examples": 60000, "wall": 900},
}


def _f(lo, hi):
    return st.floats(lo, hi, allow_nan=False, allow_subnormal=False)


@st.composite
def quats(draw):
    d = [draw(_f(-1, 1)) for _ in range(4)]
    kind = draw(st.sampled_from(["generic", "generic", "unit", "identity", "axis"]))
    if kind == "identity":
        return [1.0, 0.0, 0.0, 0.0]
    if kind == "axis":
        return [0.0, 0.0, 0.0, 1.0] if draw(st.booleans()) else [draw(_f(0.3, 1.0)), 0.0, draw(_f(0.3, 1.0)), 0.0]
    n2 = sum(x * x for x in d)
    if n2 < 1e-3:
        d = [0.5, -0.5, 0.5, 0.5]
        n2 = 1.0
    norm = 1.0 if kind == "unit" else draw(_f(0.3, 3.0))
    s = norm / n2**0.5
    return [x * s for x in d]


@st.composite
def cases(draw):
    v3 = lambda lo, hi: [draw(_f(lo, hi)) for _ in range(3)]  # noqa: E731
    return {
        "q_ori": draw(quats()), "q_cal": draw(quats()),
        "bias": draw(st.sampled_from([[0.0, 0.0, 0.0], None])) or v3(-1, 1),
        "g": draw(st.sampled_from([9.81, -9.81, 1.62, 0.0])) if draw(st.booleans()) else draw(_f(-12, 12)),
        "dt": draw(st.sampled_from([0.01, 0.1, -0.01])) if draw(st.booleans()) else draw(_f(-0.5, 0.5)),
        "gyro": v3(-4, 4), "accel": v3(-20, 20), "vel": v3(-10, 10), "pos": v3(-100, 100),
        "rates0": v3(-1, 1), "acc0": v3(-1, 1),
    }


def hmul(a, b):
    aw, ax, ay, az = a
    bw, bx, by, bz = b
    return [aw * bw - ax * bx - ay * by - az * bz,
            aw * bx + ax * bw + ay * bz - az * by,
            aw * by - ax * bz + ay * bw + az * bx,
            aw * bz + ax * by - ay * bx + az * bw]


def oracle(p):
    """-> {state name: (value mpf, abs-scale float)}"""
    M = mp.mpf
    qo = [M(x) for x in p["q_ori"]]
    qc = [M(x) for x in p["q_cal"]]
    w = [M(x) for x in p["gyro"]]
    f = [M(a) - M(b) for a, b in zip(p["accel"], p["bias"])]
    dt, g = M(p["dt"]), M(p["g"])
    q = hmul(qo, qc)
    qs = [q[0], -q[1], -q[2], -q[3]]
    n2 = sum(x * x for x in q)
    rot = lambda v: hmul(hmul(q, [M(0)] + v), qs)[1:]  # noqa: E731
    rates = rot(w)  # roll, pitch, yaw = b, c, d
    acc = [x / n2 for x in rot(f)]
    acc[2] = acc[2] - g
    v = [M(x) for x in p["vel"]]
    x = [M(a) for a in p["pos"]]
    dq = hmul(qo, [M(0)] + w)
    out = {}
    aq = [abs(a) for a in q]
    sq = sum(aq) ** 2  # bound for |q|^2-type sums with absolute values
    names_acc = [r"\ddot{x}_{A}_{%d}" % (i + 1) for i in range(3)]
    names_vel = [r"\dot{x}_{A}_{%d}" % (i + 1) for i in range(3)]
    names_pos = [r"x_{A}_{%d}" % (i + 1) for i in range(3)]
    wn = sum(abs(a) for a in w)
    fn = sum(abs(M(a)) + abs(M(b)) for a, b in zip(p["accel"], p["bias"]))
    s_rate = float(sq * wn)
    s_acc = float(sq * fn / n2 + abs(g))
    out[r"\dot{\phi}"] = (rates[0], s_rate)
    out[r"\dot{\theta}"] = (rates[1], s_rate)
    out[r"\dot{\psi}"] = (rates[2], s_rate)
    for i in range(3):
        out[names_acc[i]] = (acc[i], s_acc)
        out[names_vel[i]] = (v[i] + acc[i] * dt, float(abs(v[i])) + s_acc * float(abs(dt)))
        out[names_pos[i]] = (x[i] + v[i] * dt + acc[i] * dt * dt / 2,
                             float(abs(x[i]) + abs(v[i] * dt)) + s_acc * float(dt * dt))
    for nm, a, b in zip(["oriw", "orix", "oriy", "oriz"], qo, dq):
        out[nm] = (a + b * dt / 2, float(abs(a)) + float(sum(abs(t) for t in qo) * wn * abs(dt)))
    return out


_cache = {}


def compiled():
    if "m" not in _cache:
        from formak import python
        from formak.reference_models import strapdown_imu as S

        cal0 = {S.g: 9.81, S.coriw: 1.0, S.corix: 0.0, S.coriy: 0.0, S.coriz: 0.0,
                S.accel_sensor_bias[0]: 0.0, S.accel_sensor_bias[1]: 0.0, S.accel_sensor_bias[2]: 0.0}
        _cache["S"] = S
        _cache["m"] = {
            cse: python.compile(S.symbolic_model, cal0, config={"common_subexpression_elimination": cse})
            for cse in (False, True)
        }
    return _cache["S"], _cache["m"]


def named_inputs(S, p):
    cal = {"g": p["g"], "coriw": p["q_cal"][0], "corix": p["q_cal"][1], "coriy": p["q_cal"][2], "coriz": p["q_cal"][3]}
    for i in range(3):
        cal["f_bias_{%d}" % (i + 1)] = p["bias"][i]
    state = {"oriw": p["q_ori"][0], "orix": p["q_ori"][1], "oriy": p["q_ori"][2], "oriz": p["q_ori"][3],
             r"\dot{\phi}": p["rates0"][0], r"\dot{\theta}": p["rates0"][1], r"\dot{\psi}": p["rates0"][2]}
    ctl = {}
    for i in range(3):
        state[r"x_{A}_{%d}" % (i + 1)] = p["pos"][i]
        state[r"\dot{x}_{A}_{%d}" % (i + 1)] = p["vel"][i]
        state[r"\ddot{x}_{A}_{%d}" % (i + 1)] = p["acc0"][i]
        ctl[r"\omega_{%d}" % (i + 1)] = p["gyro"][i]
        ctl["f_{%d}" % (i + 1)] = p["accel"][i]
    return cal, state, ctl


def case(spec, ctx):
    import numpy as np
    import sympy

    ctxmod.import_formak()
    p = spec
    with contextlib.redirect_stdout(io.StringIO()):
        with ctx.watchdog(300, "strapdown-compile-timeout"):
            with ctx.formak("compile", spec):
                S, compiled_models = compiled()
    cal, state, ctl = named_inputs(S, p)
    with mp.workdps(40):
        ref = oracle(p)
    # the model must define exactly these states
    model_states = {str(s) for s in S.symbolic_model.state}
    if model_states != set(ref):
        ctx.fail("state-set", f"model states {sorted(model_states)} vs kinematic quantities {sorted(ref)}", spec)

    # (a) symbolic expressions at the named inputs
    subs = {}
    for sym in list(S.symbolic_model.state) + list(S.symbolic_model.control) + list(S.symbolic_model.calibration):
        nm = str(sym)
        subs[sym] = state.get(nm, ctl.get(nm, cal.get(nm)))
    subs[S.dt] = p["dt"]
    for sym, expr in S.symbolic_model.state_model.items():
        with ctx.formak("symbolic-evalf", spec):
            val = sympy.sympify(expr).evalf(30, subs=subs)
        r, sc = ref[str(sym)]
        if abs(mp.mpf(str(val)) - r) > 1e-9 * max(1.0, sc):
            ctx.fail("symbolic-model:" + kind_of(str(sym)), f"{sym}: symbolic {val} vs kinematics {mp.nstr(r, 18)} (scale {sc:.3g})", spec)

    # (b) compiled Python model, CSE off and on
    for cse, model in compiled_models.items():
        with ctx.formak(f"compiled-model:cse={cse}", spec):
            model.calibration_vector = np.array([[cal[str(k)] for k in model.arglist_calibration]]).transpose()
            out = model.model(float(p["dt"]), model.State(**state), model.Control(**ctl))
        for i, sym in enumerate(model.arglist_state):
            r, sc = ref[str(sym)]
            got = float(out.data[i, 0])
            if not (abs(mp.mpf(got) - r) <= 1e-9 * max(1.0, sc)):
                ctx.fail(f"compiled-model:cse={cse}:" + kind_of(str(sym)), f"{sym}: compiled {got!r} vs kinematics {mp.nstr(r, 18)} (scale {sc:.3g})", spec)

    ident = lambda q: q[1] == q[2] == q[3] == 0.0  # noqa: E731
    axis_aligned = sum(1 for x in p["q_ori"] if x != 0.0) <= 2
    unit = abs(sum(x * x for x in p["q_ori"]) - 1.0) < 1e-12
    ctx.event("unit_orientation" if unit else "non_unit_orientation")
    ctx.event("dt<0" if p["dt"] < 0 else "dt>=0")
    if (not ident(p["q_cal"]) and any(b != 0.0 for b in p["bias"]) and all(x != 0.0 for x in p["gyro"] + p["accel"]) and not axis_aligned):
        ctx.nontrivial(spec)
        ctx.sample(spec)


def kind_of(name):
    if name.startswith("ori"):
        return "orientation"
    if "ddot" in name:
        return "acceleration"
    if "dot{x}" in name:
        return "velocity"
    if name.startswith("x_"):
        return "position"
    return "angular-rate"


def shard(ctx):
    ctx.run_given(cases(), case)
