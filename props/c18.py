"""C18 — design workflow follows its declared transitions and selects from the grid."""
from __future__ import annotations

import contextlib
import dataclasses
import enum
import inspect
import io
import itertools
import warnings

import numpy as np
from hypothesis import strategies as st

from vlib import ctxmod, models

PROP_ID = "C18"
LEVEL = "exploration"
RULE = (
    "Search (finite, enumerated completely every run): every start state {DesignManager, SymbolicModelState, "
    "FitModelState instance} x every target in StateId plus 12 non-StateId values (ints, strings, None, the enum's "
    ".value, a foreign enum, a class); oracle = own BFS over the declared graph (available_transitions + return "
    "annotations): the returned list must be a valid path of minimal length ending in the target, ValueError when "
    "unreachable or not a StateId. Transitions (generated): from generated DesignManager names and models, sequences "
    "of declared transitions incl. branching from the same state; history() must equal the states actually visited, "
    "earlier states' histories must not change, and a transition name must exist on a state iff it is declared there. "
    "Fit (generated): data sets of 0..2 rows must raise ModelFitError; for generated grids over innovation_filtering / "
    "max_dt_sec / common_subexpression_elimination (1..3 values each, <=4 candidates) and 4..9 rows of data, when "
    "fit_model succeeds every grid-governed field of export_python().config must be a member of its grid list (equal "
    "for singleton lists; for two thirds of the fits the scorer is replaced by a deterministic one with a unique maximum at a "
    "drawn grid point and every governed field must equal that point), equal the fit_estimator's config field, non-grid fields keep their defaults, and calling the "
    "names returned by search(Fit_Model) from the start state in order reaches StateId.Fit_Model. Non-trivial = a grid "
    "with >=2 candidate values for some field and a successful fit; distinct = sha1(case)."
)
ASSUMPTIONS = [
    "fit outcomes other than success (MinimizationFailure etc. raised through GridSearchCV) are counted, not judged: the property constrains successful fits and too-small data",
    "grids limited to <=4 candidates and small models to bound the cost of a fit",
]
BUDGET = {
    "quick": {"shards": 16, "examples": 30, "wall": 110, "fit_examples": 3},
    "thorough": {"shards": 16, "examples": 15000, "wall": 900, "fit_examples": 200},
}


class Foreign(enum.Enum):
    Start = 0
    Fit_Model = 2


def small_model():
    return {
        "dt": "dt", "state": ["x", "v"], "control": ["u"], "calib": [],
        "containers": {"state": "set", "control": "set", "calib": "set"}, "positive": [],
        "trees": {"x": ["add", ["sym", "x"], ["mul", ["sym", "dt"], ["sym", "v"]]],
                  "v": ["add", ["sym", "v"], ["mul", ["sym", "dt"], ["sym", "u"]]]},
        "string_form": [], "calib_values": {}, "process_noise": {"u": 0.5},
        "sensors": {"pos": {"p": ["sym", "x"]}}, "sensor_noises": {"pos": {"p": 0.4}},
        "config": {"cse": False, "innov": None, "max_dt": 0.1}, "pool_size": 0,
    }


def parameter_space(m, grid):
    tab = models.symtab(m)
    ps = {
        "process_noise": [models.process_noise(m, tab)],
        "sensor_models": [models.sensor_models(m, tab)],
        "sensor_noises": [models.sensor_noises(m)],
        "calibration_map": [models.calibration_map(m, tab)],
    }
    ps.update({k: list(v) for k, v in grid.items()})
    return ps


def declared_graph():
    from formak import ui_state_machine as sm

    classes = [sm.DesignManager, sm.SymbolicModelState, sm.FitModelState]
    edges = {}
    for c in classes:
        edges[c] = []
        for name in c.available_transitions():
            ret = inspect.signature(getattr(c, name)).return_annotation
            edges[c].append((name, ret))
    return classes, edges


def bfs(start_cls, target):
    classes, edges = declared_graph()
    frontier = [(start_cls, [])]
    seen = {start_cls}
    while frontier:
        c, path = frontier.pop(0)
        if c.state_id() == target:
            return path
        for name, nxt in edges[c]:
            if nxt not in seen:
                seen.add(nxt)
                frontier.append((nxt, path + [name]))
    return None


def walk(start_cls, path):
    classes, edges = declared_graph()
    c = start_cls
    for name in path:
        nxt = dict(edges[c]).get(name)
        if nxt is None:
            return None
        c = nxt
    return c


_fit_state_cache = {}


def a_fit_state(ctx, spec):
    """one real FitModelState per process (needs a successful fit)"""
    from formak import ui

    if "s" not in _fit_state_cache:
        m = small_model()
        X = np.array([[0.3 * ((i * 7) % 5 - 2), 0.1 * i + 0.05 * ((i * 3) % 4)] for i in range(8)], float)
        with warnings.catch_warnings():
            warnings.simplefilter("ignore")
            s = ui.DesignManager("cached").symbolic_model(model=models.ui_model(m)).fit_model(parameter_space=parameter_space(m, {}), data=X)
        _fit_state_cache["s"] = s
    return _fit_state_cache["s"]


def search_case(spec, ctx):
    from formak import ui
    from formak import ui_state_machine as sm

    m = small_model()
    starts = {"DesignManager": ui.DesignManager("s")}
    starts["SymbolicModelState"] = starts["DesignManager"].symbolic_model(model=models.ui_model(m))
    try:
        with ctx.watchdog(100, "fit-for-search-timeout"):
            starts["FitModelState"] = a_fit_state(ctx, spec)
    except ctxmod.SkipCase:
        ctx.event("search_without_FitModelState_start")
    except Exception as e:
        ctx.event(f"search_without_FitModelState_start:{type(e).__name__}")
    bad_targets = [0, 1, 2, "Start", "Fit_Model", None, sm.StateId.Start.value, Foreign.Start, Foreign.Fit_Model, sm.StateId, 1.0, ("Fit_Model",)]
    n = 0
    for sname, s in starts.items():
        for target in list(sm.StateId) + bad_targets:
            n += 1
            ctx.count()
            one = {"layer": "search", "start": sname, "target": repr(target)}
            try:
                got = s.search(target, debug=False)
                err = None
            except ValueError as e:
                got, err = None, e
            except Exception as e:
                ctx.fail(f"search-raised:{type(e).__name__}", f"{sname}.search({target!r}): {e!r}", one)
            want = bfs(type(s), target) if isinstance(target, sm.StateId) else None
            if want is None:
                if err is None:
                    ctx.fail("search-returned-for-unreachable-or-non-state", f"{sname}.search({target!r}) returned {got}", one)
                ctx.event("search_refused")
            else:
                if err is not None:
                    ctx.fail("search-refused-reachable", f"{sname}.search({target!r}) raised {err!r}; a path {want} exists", one)
                end = walk(type(s), got)
                if end is None or end.state_id() != target:
                    ctx.fail("search-path-invalid", f"{sname}.search({target!r}) = {got} does not end in the target", one)
                if len(got) != len(want):
                    ctx.fail("search-path-not-shortest", f"{got} vs shortest {want}", one)
                ctx.nontrivial(one)
                ctx.event("search_path_checked")
    ctx.add_extra("search_pairs_enumerated", n)
    ctx.add_extra("exhaustive_search_subdomain", True)


@st.composite
def transition_cases(draw):
    names = [draw(st.text("abcdefgh-_ 1", min_size=0, max_size=8)) for _ in range(draw(st.integers(1, 3)))]
    ms = [draw(models.model_specs(names="free", n_state=(1, 2), n_control=(0, 1), n_calib=(0, 0), depth=1)) for _ in range(draw(st.integers(1, 3)))]
    plan = [(draw(st.integers(0, len(names) - 1)), draw(st.integers(0, len(ms) - 1))) for _ in range(draw(st.integers(1, 5)))]
    return {"layer": "transitions", "names": names, "models": ms, "plan": plan, "rows": draw(st.integers(0, 2))}


def transition_case(spec, ctx):
    from formak import ui
    from formak import ui_state_machine as sm
    from formak.exceptions import ModelFitError

    managers = [ui.DesignManager(n) for n in spec["names"]]
    uis = [models.ui_model(m) for m in spec["models"]]
    other = {"symbolic_model", "fit_model", "start", "reset", "back", "design", "export_cpp"}
    children = []
    for mi, ui_i in spec["plan"]:
        mgr = managers[mi]
        with ctx.formak("transition:symbolic_model", spec):
            child = mgr.symbolic_model(model=uis[ui_i])
        children.append((mgr, child, uis[ui_i]))
        for mg in managers:
            if mg.history() != [sm.StateId.Start]:
                ctx.fail("history-of-earlier-state-changed", f"{mg.history()}", spec)
        for _, ch, _u in children:
            if ch.history() != [sm.StateId.Start, sm.StateId.Symbolic_Model]:
                ctx.fail("history-wrong", f"{ch.history()}", spec)
        if child.state_id() != sm.StateId.Symbolic_Model or child.model is not uis[ui_i] or child.name != mgr.name:
            ctx.fail("transition-result", f"{child.state_id()} name {child.name!r}", spec)
    for state in managers + [c for _, c, _ in children]:
        declared = set(state.available_transitions())
        for name in sorted(other | declared):
            has = callable(getattr(state, name, None))
            if name in declared and not has:
                ctx.fail("declared-transition-missing", f"{type(state).__name__}.{name}", spec)
            if name not in declared and has and name in {"symbolic_model", "fit_model"}:
                ctx.fail("undeclared-transition-exists", f"{type(state).__name__}.{name} exists but is not in available_transitions() = {sorted(declared)}", spec)
    # too-small data sets
    mgr, child, _u = children[-1]
    m = spec["models"][spec["plan"][-1][1]]
    X = np.ones((spec["rows"], max(1, len(m["control"]))))
    try:
        child.fit_model(parameter_space={}, data=X)
        ctx.fail("fit-accepted-too-small-data", f"{spec['rows']} rows", spec)
    except (ctxmod.Violation, ctxmod.KnownFindingHit):
        raise
    except ModelFitError:
        ctx.event("too_small_data_refused")
    except Exception as e:  # "refuses": any error counts; the type is recorded
        ctx.event(f"too_small_data_refused_with:{type(e).__name__}")
    if child.history() != [sm.StateId.Start, sm.StateId.Symbolic_Model]:
        ctx.fail("history-changed-by-failed-transition", f"{child.history()}", spec)
    ctx.event("transition_case")
    if len(spec["plan"]) >= 2:
        ctx.nontrivial(spec)


@st.composite
def fit_cases(draw):
    grid = {}
    kind = draw(st.sampled_from(["single-none", "single-value", "multi", "multi", "absent"]))
    inn = {"single-none": [None], "single-value": [draw(st.sampled_from([1.0, 3.0, 8.0]))], "absent": None,
           "multi": draw(st.lists(st.sampled_from([None, 1.0, 3.0, 5.0, 8.0]), min_size=2, max_size=3, unique=True))}[kind]
    if inn is not None:
        grid["innovation_filtering"] = inn
    budget = 4 // max(1, len(grid.get("innovation_filtering", [1])))
    second = draw(st.sampled_from(["multi", "multi", "single", "none"]))
    if budget >= 2 and second == "multi":
        grid["max_dt_sec"] = draw(st.lists(st.sampled_from([0.05, 0.1, 0.5]), min_size=2, max_size=2, unique=True))
    elif second != "none":
        grid["max_dt_sec"] = [draw(st.sampled_from([0.05, 0.2]))]
    if draw(st.integers(0, 3)) == 0:
        grid["common_subexpression_elimination"] = [draw(st.booleans())]
    rows = draw(st.integers(4, 9))
    X = [[draw(models.signed_val()), draw(models.signed_val())] for _ in range(rows)]
    # in half of the cases the scorer is replaced by a deterministic one that prefers one drawn grid point, so that the
    # hyper-parameters the search must select are known
    target = None
    if grid and draw(st.sampled_from([True, True, False])):
        # prefer values that are NOT the first of their list (the first one is what a search falls back to)
        target = {k: (draw(st.sampled_from(v[1:])) if len(v) > 1 and draw(st.integers(0, 3)) else draw(st.sampled_from(v)))
                  for k, v in grid.items()}
    return {"layer": "fit", "grid": grid, "X": X, "target": target}


def fit_case(spec, ctx):
    from formak import python, ui
    from formak import ui_state_machine as sm

    m = small_model()
    start = ui.DesignManager("fit")
    path = start.search(sm.StateId.Fit_Model, debug=False)
    args = {"symbolic_model": {"model": models.ui_model(m)},
            "fit_model": {"parameter_space": parameter_space(m, spec["grid"]), "data": np.array(spec["X"], float)}}
    state = start
    target = spec.get("target")
    original_scorer = sm.NisScore
    if target is not None:
        class PreferTarget:
            """score = - number of grid-governed fields that differ from the target (the search maximises the score)"""

            def __call__(self, estimator, X, y=None):
                return -float(sum(1 for k_, v_ in target.items() if getattr(estimator.config, k_) != v_))

        sm.NisScore = PreferTarget
    try:
        with ctx.watchdog(300, "fit-timeout"):
            with warnings.catch_warnings():
                warnings.simplefilter("ignore")
                for name in path:
                    state = getattr(state, name)(**args[name])
    except (ctxmod.SkipCase, ctxmod.Violation, ctxmod.KnownFindingHit):
        raise
    except Exception as e:
        ctx.event(f"fit_outcome:{type(e).__name__}")
        return
    finally:
        sm.NisScore = original_scorer
    ctx.event("fit_outcome:success")
    for field, vals in spec["grid"].items():
        ctx.event(f"grid:{field}:{'singleton' if len(vals) == 1 else 'multi'}{':None' if vals == [None] else ''}")
    if state.state_id() != sm.StateId.Fit_Model:
        ctx.fail("path-from-search-does-not-reach-target", f"{path} ended in {state.state_id()}", spec)
    if state.history() != [sm.StateId.Start, sm.StateId.Symbolic_Model, sm.StateId.Fit_Model]:
        ctx.fail("history-wrong", f"{state.history()}", spec)
    if state.available_transitions() != [] or state.search(sm.StateId.Fit_Model, debug=False) != []:
        ctx.fail("fit-state-transitions", f"{state.available_transitions()}", spec)
    with ctx.formak("export_python", spec):
        f = state.export_python()
    cfg = f.config
    est_cfg = state.fit_estimator.config
    defaults = python.Config()
    for field in ("common_subexpression_elimination", "max_dt_sec", "innovation_filtering", "extra_validation"):
        got = getattr(cfg, field)
        if got != getattr(est_cfg, field):
            ctx.fail("exported-config-differs-from-selected", f"{field}: exported {got!r} estimator {getattr(est_cfg, field)!r}", spec)
        if field in spec["grid"]:
            if got not in spec["grid"][field]:
                ctx.fail("selected-outside-grid", f"{field} = {got!r} not in {spec['grid'][field]}", spec)
        elif got != getattr(defaults, field):
            ctx.fail("non-grid-field-changed", f"{field} = {got!r}, default {getattr(defaults, field)!r}", spec)
        if target is not None and field in target and got != target[field]:
            ctx.fail("exported-filter-does-not-carry-the-selected-hyper-parameters",
                     f"the scorer prefers {target} (unique maximum over the grid {spec['grid']}); exported {field} = {got!r}", spec)
    if target is not None:
        ctx.event("deterministic_scorer_target_checked")
    if any(len(v) >= 2 for v in spec["grid"].values()):
        ctx.nontrivial(spec)
    ctx.sample({"layer": "fit", "grid": spec["grid"], "rows": len(spec["X"]),
                "selected": {k: getattr(cfg, k) for k in ("innovation_filtering", "max_dt_sec", "common_subexpression_elimination")}}, limit=4)


def case(spec, ctx):
    ctxmod.import_formak()
    with contextlib.redirect_stdout(io.StringIO()):
        {"search": search_case, "transitions": transition_case, "fit": fit_case}[spec["layer"]](spec, ctx)


def shard(ctx):
    if ctx.shard == 0:
        ctx.run_one(case, {"layer": "search"})
    ctx.run_given(transition_cases(), case, label="transitions", share=0.3)
    ctx.run_given(fit_cases(), case, examples=ctx.budget["fit_examples"], label="fit")
