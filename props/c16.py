"""C16 — scikit-learn adapter's transform / mahalanobis / score are the filter's NIS."""
from __future__ import annotations

import copy

import mpmath as mp
import numpy as np
from hypothesis import strategies as st

from vlib import ctxmod, ekf, models, oracle
from vlib import trees as T

PROP_ID = "C16"
LEVEL = "exploration"
RULE = (
    "Hypothesis draws small Euler-form definitions (1..3 states, 0..2 controls, 0..1 calibrations, 1..3 sensors of 1..2 "
    "readings, k in [0.5,8] or disabled) and data matrices of 3..10 rows x (#controls + total readings) with values in "
    "+-[0.1,3]. Oracles: transform(X)[row, j] equals (1e-12 relative) the NIS of the j-th sensor in sorted key order "
    "obtained by running export_python() by hand (State(), Covariance(), process_model(0.1, ., Control.from_data(row[:c])), "
    "then each sensor in key order with its slice of the row) and, on the first three rows (1e-7 relative), the NIS of an independent mpmath "
    "EKF fold that slices the row by name; all values >= 0; mahalanobis(X) is the same numbers flattened row-major; "
    "score(X, explain_score=True): total = sum(weight_i*score_i) of the returned tuple, bias = mean(sqrt NIS)^2, variance = "
    "(1/sum NIS + sum NIS)/2, size = sum of squared noise magnitudes, weights positive, and with sample_weight (single "
    "sensor) the weighted forms; score(X) == total; get_params() deep-equal before/after every call; repeated calls "
    "bit-identical; after set_params(innovation_filtering=other value) transform must again equal the freshly exported "
    "filter run by hand (no stale compiled filter). Non-trivial = (>=2 sensors or >=1 control) and every row has pairwise distinct entries; distinct = "
    "sha1(case)."
)
ASSUMPTIONS = [
    "models contain no division by state/control symbols (the adapter starts from the all-zero state)",
    "reference fold stops comparing after a row whose NIS is within 1e-6 of the editing threshold (decision ambiguous)",
]
BUDGET = {
    "quick": {"shards": 16, "examples": 8, "wall": 110},
    "thorough": {"shards": 16, "examples": 2500, "wall": 900},
}


@st.composite
def cases(draw):
    m = draw(models.model_specs(calib_types=models.CALIB_TYPES, names=draw(st.sampled_from(["ident", "free"])), n_state=(1, 3), n_control=(0, 2), n_calib=(0, 1),
                                n_sensors=(1, 3), n_readings=(1, 2), depth=2, sensor_depth=2, euler="bounded", allow_positive=False,
                                cse=draw(st.sampled_from([False, False, True]))))
    width = len(m["control"]) + sum(len(r) for r in m["sensors"].values())
    rows = draw(st.integers(3, 10))
    X = [[draw(models.signed_val()) for _ in range(width)] for _ in range(rows)]
    w = [draw(st.floats(0.1, 2.0, allow_nan=False)) for _ in range(rows)]
    second_k = draw(st.sampled_from([None, 0.5, 1.0, 4.0]))
    X2 = [[draw(models.signed_val()) for _ in range(width)] for _ in range(draw(st.integers(2, 5)))]
    return {"model": m, "X": X, "weights": w, "second_k": second_k, "X2": X2}


def make_adapter(m):
    from formak import python

    tab = models.symtab(m)
    # the adapter sorts the keys of every noise map (score / fit), and Symbols cannot be sorted: a noise map with two or more
    # Symbol keys is outside what the adapter accepts (DESIGN §10 item 22); the filter entry points take it (str(key))
    m = {k_: v_ for k_, v_ in m.items() if k_ != "noise_symbol_keyed"}
    return python.SklearnEKFAdapter.Create(models.ui_model(m, tab), models.process_noise(m, tab), models.sensor_models(m, tab),
                                           models.sensor_noises(m), models.calibration_map(m, tab), config=models.py_config(m, _object=True))


def snapshot(ad):
    p = ad.get_params()
    return (p["symbolic_model"], copy.deepcopy(p["process_noise"]), copy.deepcopy(p["sensor_models"]),
            copy.deepcopy(p["sensor_noises"]), copy.deepcopy(p["calibration_map"]), p["config"])


def same_params(a, b):
    return (a[0] is b[0] and models.same_values(a[1], b[1]) and a[2] == b[2] and models.same_values(a[3], b[3])
            and models.same_values(a[4], b[4]) and a[5] == b[5])


def by_hand(f, m, X):
    keys = sorted(f.sensor_models)
    c = f.control_size
    state, cov = f.State(), f.Covariance()
    out = []
    for row in X:
        row = np.asarray(row, float)
        state, cov = f.process_model(0.1, state, cov, f.Control.from_data(row[:c].reshape((c, 1))))
        rest = row[c:]
        nis_row = []
        for key in keys:
            size = len(f.sensor_models[key].readings)
            z, rest = rest[:size], rest[size:]
            state, cov = f.sensor_model(state=state, covariance=cov, sensor_key=key,
                                        sensor_reading=f.make_reading(key, data=z.reshape((size, 1))))
            y, S = f.innovations[key], f.sensor_prediction_uncertainty[key]
            nis_row.append(float((y.T @ np.linalg.inv(S) @ y).item()))
        out.append(nis_row)
    return np.array(out)


def reference_fold(m, X):
    """independent mpmath EKF; row sliced BY NAME: controls sorted by name, then sensors by key, readings by name.
    Returns list of rows of NIS (mpf) and the index of the first row from which comparison is unreliable."""
    st_, ct = sorted(m["state"]), sorted(m["control"])
    keys = sorted(m["sensors"])
    k = m["config"]["innov"]
    with mp.workdps(40):
        x = {s: mp.mpf(0) for s in st_}
        P = mp.eye(len(st_))
        out, stop = [], None
        for ri, row in enumerate(X):
            point = {s: x[s] for s in st_}
            for i, c in enumerate(ct):
                point[c] = mp.mpf(row[i])
            point[m["dt"]] = mp.mpf("0.1")
            point[m["dt"]] = mp.mpf(0.1)
            xn, Pn, _, _, _ = _predict(m, point, P)
            x, P = xn, Pn
            pos = len(ct)
            nis_row = []
            for key in keys:
                rd = sorted(m["sensors"][key])
                z = {r: row[pos + j] for j, r in enumerate(rd)}
                pos += len(rd)
                ref = _update(m, key, x, P, z)
                nis_row.append(ref["nis"])
                T_ = None if k is None else ekf.threshold(k, len(rd))
                if T_ is not None and abs(ref["nis"] - T_) <= 1e-6 * T_ and stop is None:
                    stop = ri
                if T_ is None or ref["nis"] <= T_:
                    x = {s: ref["x"][i] for i, s in enumerate(st_)}
                    P = ref["P"]
            out.append(nis_row)
        return out, stop


def _predict(m, point, P):
    env = dict(point)
    for kk, v in m["calib_values"].items():
        env[kk] = mp.mpf(v)
    st_, ct = sorted(m["state"]), sorted(m["control"])
    G, _ = oracle.jac_matrix(m, st_, m["trees"], st_, env)
    Pn = G * P * G.T
    if ct:
        V, _ = oracle.jac_matrix(m, st_, m["trees"], ct, env)
        M = mp.matrix(len(ct), len(ct))
        for i, c in enumerate(ct):
            M[i, i] = mp.mpf(m["process_noise"][c])
        Pn = Pn + V * M * V.T
    return {s: T.eval_mp(m["trees"][s], env) for s in st_}, Pn, None, None, None


def _update(m, key, x, P, z):
    env = dict(x)
    for kk, v in m["calib_values"].items():
        env[kk] = mp.mpf(v)
    st_ = sorted(m["state"])
    rd = sorted(m["sensors"][key])
    trees = m["sensors"][key]
    H, _ = oracle.jac_matrix(m, rd, trees, st_, env)
    Q = mp.matrix(len(rd), len(rd))
    for i, r in enumerate(rd):
        Q[i, i] = mp.mpf(m["sensor_noises"][key][r])
    S = H * P * H.T + Q
    Sinv = S ** -1
    K = P * H.T * Sinv
    y = mp.matrix([mp.mpf(z[r]) - T.eval_mp(trees[r], env) for r in rd])
    xv = mp.matrix([x[s] for s in st_])
    return {"x": xv + K * y, "P": P - K * H * P, "nis": (y.T * Sinv * y)[0, 0]}


def case(spec, ctx):
    import contextlib
    import io

    with contextlib.redirect_stdout(io.StringIO()):  # the adapter prints diagnostics
        _case(spec, ctx)


def _case(spec, ctx):
    ctxmod.import_formak()
    m = spec["model"]
    X = np.array(spec["X"], float)
    with ctx.watchdog(60, "adapter-case-timeout"):
        with ctx.formak("Create", spec):
            ad = make_adapter(m)
        snap = snapshot(ad)
        with ctx.formak("transform", spec):
            t1 = np.asarray(ad.transform(X), float)
            t2 = np.asarray(ad.transform(X), float)
        if not same_params(snap, snapshot(ad)):
            ctx.fail("params-changed:transform", "get_params() differs after transform", spec)
        nsens = len(m["sensors"])
        if t1.shape != (len(X), nsens):
            ctx.fail("transform:shape", f"{t1.shape} expected {(len(X), nsens)}", spec)
        if not np.array_equal(t1, t2):
            ctx.fail("transform:not-repeatable", "", spec)
        t1_snapshot = t1.copy()
        # the same data in the other accepted forms: nested lists, and a 1-D array when there is a single column
        with ctx.formak("transform:list-input", spec):
            tl = np.asarray(ad.transform(X.tolist()), float)
        if not np.array_equal(tl, t1):
            ctx.fail("transform:input-form", "nested-list input gives another result than the equivalent array", spec)
        Xi = np.round(X).astype(np.int64)
        with ctx.formak("transform:int-input", spec):
            ti = np.asarray(ad.transform(Xi), float)
            ti_list = np.asarray(ad.transform(Xi.tolist()), float)
            tf = np.asarray(ad.transform(Xi.astype(float)), float)
        if not (np.array_equal(ti, tf) and np.array_equal(ti_list, tf)):
            ctx.fail("transform:input-dtype", f"integer-valued data as int64 array / list of ints gives {ti.tolist()[:2]} / {ti_list.tolist()[:2]}, "
                                              f"as float64 array {tf.tolist()[:2]}", spec)
        if X.shape[1] == 1:
            with ctx.formak("transform:1d-input", spec):
                t1d = np.asarray(ad.transform(X.reshape(-1)), float)
            if not np.array_equal(t1d, t1):
                ctx.fail("transform:input-form", "1-D input gives another result than the equivalent column", spec)
            ctx.event("one_dimensional_input_checked")
        if np.any(t1 < 0) or not np.all(np.isfinite(t1)):
            ctx.fail("transform:negative-or-nonfinite", f"{t1}", spec)
        with ctx.formak("export_python", spec):
            f = ad.export_python()
            hand = by_hand(f, m, X)
        if not np.allclose(t1, hand, rtol=1e-9, atol=1e-12):  # the global tolerance rule; an equivalent formula (solve instead of inv) differs by eps*cond(S)
            ctx.fail("transform:vs-exported-filter-by-hand", f"transform {t1.tolist()} by hand {hand.tolist()}", spec)
        ref, stop = reference_fold(m, spec["X"])
        # the fold's sensitivity to rounding grows with every row (measured: x100 per row on some generated filters),
        # so the independent reference is compared on the first three rows only; later rows are pinned by the
        # bit-level comparison with the exported filter run by hand above
        for ri in range(min(3, len(X) if stop is None else stop + 1)):
            for j in range(nsens):
                r = float(ref[ri][j])
                if abs(t1[ri, j] - r) > 1e-7 * max(1.0, abs(r)):
                    ctx.fail("transform:vs-reference-ekf", f"row {ri} sensor #{j} ({sorted(m['sensors'])[j]}): transform {t1[ri, j]!r} reference NIS {r!r}", spec)
        with ctx.formak("mahalanobis", spec):
            d = np.asarray(ad.mahalanobis(X), float)
        if not np.array_equal(d, t1.reshape(-1)):
            ctx.fail("mahalanobis:not-flattened-transform", f"{d.tolist()} vs {t1.reshape(-1).tolist()}", spec)
        if not same_params(snap, snapshot(ad)):
            ctx.fail("params-changed:mahalanobis", "", spec)
        if not (np.sum(t1) > 0 and np.all(np.isfinite(t1))):
            # every innovation exactly zero: the documented variance term (1/sum + sum)/2 is infinite and FormaK says so with
            # a ValueError; the score is not defined for such data (found by the thorough tier, DESIGN 10 item 26)
            try:
                ad.score(X)
                ctx.event("score:degenerate-data:returned")
            except Exception:
                ctx.event("score:degenerate-data:refused")
            if not same_params(snap, snapshot(ad)):
                ctx.fail("params-changed:score", "", spec)
            return
        with ctx.formak("score", spec):
            total, parts = ad.score(X, explain_score=True)
            plain = ad.score(X)
            plain2 = ad.score(X)
        if not same_params(snap, snapshot(ad)):
            ctx.fail("params-changed:score", "", spec)
        bw, bs, vw, vs, mw, ms = parts
        nis = t1.reshape(-1)
        exp_bias = float(np.mean(np.sqrt(nis)) ** 2)
        exp_var = float((1.0 / np.sum(nis) + np.sum(nis)) / 2.0)
        exp_size = float(sum(v * v for v in m["process_noise"].values()) + sum(v * v for r in m["sensor_noises"].values() for v in r.values()))
        rel = lambda a, b: abs(a - b) <= 1e-9 * max(1.0, abs(b))  # noqa: E731
        if not (bw > 0 and vw > 0 and mw > 0):
            ctx.fail("score:weights-not-positive", f"{parts}", spec)
        if not rel(total, bw * bs + vw * vs + mw * ms):
            ctx.fail("score:total-not-weighted-sum", f"{total} vs {parts}", spec)
        if not rel(bs, exp_bias):
            ctx.fail("score:bias", f"{bs} expected mean(sqrt NIS)^2 = {exp_bias}", spec)
        if not rel(vs, exp_var):
            ctx.fail("score:variance", f"{vs} expected {exp_var}", spec)
        if not rel(ms, exp_size):
            ctx.fail("score:size", f"{ms} expected {exp_size}", spec)
        if plain != total or plain != plain2:
            ctx.fail("score:not-repeatable-or-differs-from-explained", f"{plain} {plain2} {total}", spec)
        if nsens == 1:
            w = np.array(spec["weights"][: len(X)] + [1.0] * max(0, len(X) - len(spec["weights"])), float)
            with ctx.formak("score:sample_weight", spec):
                tw, pw = ad.score(X, sample_weight=w, explain_score=True)
            eb = float(np.mean(np.sqrt(nis) * w) ** 2)
            ev = float((1.0 / np.sum(nis * w) + np.sum(nis * w)) / 2.0)
            if not (rel(pw[1], eb) and rel(pw[3], ev)):
                ctx.fail("score:sample_weight", f"bias {pw[1]} exp {eb}; variance {pw[3]} exp {ev}", spec)
            ctx.event("sample_weight_checked")
        # other data through the same estimator: nothing may be carried over from the previous call
        if spec.get("X2"):
            X2 = np.array(spec["X2"], float)
            with ctx.formak("transform:second-data", spec):
                t4 = np.asarray(ad.transform(X2), float)
                hand4 = by_hand(ad.export_python(), m, X2)
            if not np.allclose(t4, hand4, rtol=1e-9, atol=1e-12):
                ctx.fail("transform:state-carried-over-between-calls", f"second data matrix: transform {t4.tolist()} by hand {hand4.tolist()}", spec)
            if m["sensors"]:
                try:
                    shadow = make_adapter(models.shadow_of(m, "sensors"))
                    shadow.transform(X2)
                    ctx.event("shadow_adapter_used_in_between")
                except Exception:
                    ctx.event("shadow_adapter_not_usable")
            with ctx.formak("transform:first-data-again", spec):
                t5 = np.asarray(ad.transform(X), float)
            if not np.array_equal(t5, t1):
                ctx.fail("transform:not-repeatable", "first matrix again after another matrix", spec)
        # a parameter changed through set_params must be honoured by the next call (no stale compiled filter)
        k0 = m["config"]["innov"]
        k1 = spec.get("second_k", "unset")
        if k1 != "unset" and k1 != k0:
            with ctx.formak("set_params+transform", spec):
                ad.set_params(innovation_filtering=k1)
                t3 = np.asarray(ad.transform(X), float)
                hand3 = by_hand(ad.export_python(), m, X)
            if not np.allclose(t3, hand3, rtol=1e-9, atol=1e-12):
                ctx.fail("transform:stale-after-set_params", f"after set_params(innovation_filtering={k1!r}) (was {k0!r}): transform {t3.tolist()} "
                                                             f"exported filter by hand {hand3.tolist()}", spec)
            if not np.array_equal(t3, t1):
                ctx.event("second_threshold_changed_the_NIS")
            ctx.event("set_params_then_transform_checked")
        if not np.array_equal(t1, t1_snapshot):
            ctx.fail("transform:earlier-result-changed", "the array returned by the first transform call changed during later calls", spec)
    distinct_rows = all(len(set(r)) == len(r) for r in spec["X"])
    ctx.event(f"sensors={nsens}")
    ctx.event(f"controls={len(m['control'])}")
    ctx.event("filtering_disabled" if m["config"]["innov"] is None else "filtering_k")
    if stop is not None:
        ctx.event("reference_fold_stopped_near_threshold")
    if (nsens >= 2 or m["control"]) and distinct_rows:
        ctx.nontrivial(spec)
        ctx.sample({"state": m["state"], "control": m["control"], "sensors": {k: sorted(v) for k, v in m["sensors"].items()},
                    "innovation_filtering": m["config"]["innov"], "X_first_rows": spec["X"][:2], "transform_first_row": t1[0].tolist()})


def shard(ctx):
    ctx.run_given(cases(), case)
