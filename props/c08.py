"""C08 — common-subexpression elimination never changes a result; temporaries are single-assignment."""
from __future__ import annotations

import re

import mpmath as mp
import numpy as np
from hypothesis import strategies as st

from props import c02, c03
from vlib import cppharness as H
from vlib import ctxmod, ekf, models, oracle

PROP_ID = "C08"
LEVEL = "exploration"
RULE = (
    "Hypothesis draws definitions from the sharing-pool generator (2..3 shared sub-trees, later ones may contain earlier "
    "ones, spliced into several state updates and sensor readings) so that sympy.cse must emit chained temporaries. "
    "(a0) plain compiled Python models as in C01 (incl. user-defined functions supplied through Config.python_modules and shared by "
    "two outputs): CSE on vs off vs reference; (a) Python filters: model values, process/control/sensor Jacobians, one prediction and one update with CSE on vs off must "
    "agree (2e-9*abs-scale) and match the mpmath reference; (b) C++: the same definition generated with CSE on and off, "
    "both compiled and run on the same inputs, every printed entry compared (1e-7 relative to max(1,|a|,|b|)), CSE-on "
    "outputs also against the reference; (c) layout-agnostic single-assignment predicate over the CSE-on source (statements "
    "split on ; { }; a temporary = a local `double` named underscore-letters-number, qualifiers allowed): declared once, never "
    "assigned again, and every temporary mentioned in a statement was declared earlier in a visible scope (not before its "
    "assignment, not another function's temporary). The Python back-end is judged by values only (its temporaries are not 'generated code'; their count and "
    "nesting are read from the compiled blocks for the statistics when the layout is the pinned one, else from sympy.cse). "
    "Non-trivial = the generated code (or sympy.cse on the model) has >=2 temporaries and one references another; "
    "distinct = sha1(model spec)."
)
ASSUMPTIONS = c02.ASSUMPTIONS + ["single-assignment predicate is textual: temporaries are recognised by the naming convention underscore-letters-number of local doubles (statement/brace level, independent of whitespace and qualifiers)"]
BUDGET = {
    "quick": {"shards": 16, "examples": 20, "wall": 120, "cpp_examples": 3},
    "thorough": {"shards": 16, "examples": 3800, "wall": 900, "cpp_examples": 500},
}

TEMPNAME = r"_[A-Za-z][A-Za-z0-9_]*?[0-9]+"  # _t0, _cse12, _tmp3: underscore, letters, a number (any such convention)
DECL = re.compile(r"^(?:(?:static|const|constexpr|thread_local)\s+)*double\s+(?:const\s+)?(" + TEMPNAME + r")\s*(?:=|\{)\s*(.*?)\}?$", re.S)
TEMP = re.compile(r"(?<![A-Za-z0-9_.])" + TEMPNAME + r"(?![A-Za-z0-9_])")
REASSIGN = re.compile(r"^(" + TEMPNAME + r")\s*(?:[-+*/]?=)(?!=)")


BRACE_DECL_HEAD = re.compile(r"^(?:(?:static|const|constexpr|thread_local)\s+)*double\s+(?:const\s+)?" + TEMPNAME + r"$")


def _statements(source: str):
    """yields ("open", head), ("close", ""), ("stmt", text); comments removed; independent of whitespace / line layout"""
    src = re.sub(r"/\*.*?\*/", " ", source, flags=re.S)
    src = re.sub(r"//[^\n]*", " ", src)
    cur, init_depth = [], 0
    for ch in src:
        if init_depth:  # inside `double _t0{ ... }`
            cur.append(ch)
            init_depth += {"{": 1, "}": -1}.get(ch, 0)
            continue
        if ch == "{":
            t = " ".join("".join(cur).split())
            if BRACE_DECL_HEAD.match(t):
                cur.append("{")
                init_depth = 1
                continue
            cur = []
            yield ("open", t)
        elif ch == "}":
            t = " ".join("".join(cur).split())
            cur = []
            if t:
                yield ("stmt", t)
            yield ("close", "")
        elif ch == ";":
            t = " ".join("".join(cur).split())
            cur = []
            if t:
                yield ("stmt", t)
        else:
            cur.append(ch)


def ssa_check(source: str):
    """-> (list of problems, max temporaries in one function body, nested).
    Layout-agnostic single-assignment predicate over the generated C++: a temporary is a local `double` whose name follows
    the generator's underscore-letters-number convention (whatever the letters; `const` etc. allowed). Within the scopes
    visible at a statement: a temporary is declared once, never assigned again, and every temporary mentioned anywhere has
    been declared earlier in a visible scope (so: not before its assignment, and not another function's temporary)."""
    problems, max_temps, nested = [], 0, False
    events = list(_statements(source))
    scopes = [[]]  # stack of lists of declared temporaries
    counts = [0]
    heads = ["<file>"]
    for kind, text in events:
        if kind == "open":
            scopes.append([])
            heads.append(" ".join(text.split())[:80])
            continue
        if kind == "close":
            if len(scopes) > 1:
                max_temps = max(max_temps, len(scopes[-1]))
                scopes.pop()
                heads.pop()
            continue
        visible = [n for sc in scopes for n in sc]
        where = next((h for h in reversed(heads) if "(" in h), heads[-1])
        m = DECL.match(text)
        rhs = text
        if m:
            name, rhs = m.group(1), m.group(2)
            if name in visible:
                problems.append(f"{where}: {name} assigned twice")
            if TEMP.search(rhs):
                nested = True
        else:
            r = REASSIGN.match(text)
            if r and r.group(1) in visible:
                problems.append(f"{where}: re-assignment `{text[:60]}`")
        for used in TEMP.findall(rhs):
            if used not in visible:
                problems.append(f"{where}: {used} used before assignment (or not a temporary of this function) in `{text[:80]}`")
        if m:
            scopes[-1].append(m.group(1))
    return problems, max_temps, nested


@st.composite
def cases(draw, cpp=False):
    spec = draw(models.model_specs(names="ident" if cpp else draw(st.sampled_from(["ident", "free"])),
                                   n_state=(2, 4), n_control=(0, 2), n_calib=(0, 2), n_sensors=(1, 2),
                                   n_readings=(1, 3), depth=2, sensor_depth=2, pool=True, cse=True, allow_wrap="atan",
                                   innovation=("none",)))
    n = len(spec["state"])
    pts = [{"point": draw(models.points(spec)), "P": draw(ekf.spd(n))} for _ in range(3)]
    key = draw(st.sampled_from(sorted(spec["sensors"])))
    up = {"key": key, "point": draw(models.points(spec)), "P": draw(ekf.spd(n)),
          "z": {r: draw(models.signed_val()) for r in spec["sensors"][key]}}
    return {"layer": "cpp" if cpp else "python", "model": spec, "process": pts, "update": up}


def prefix_stats(block):
    """(number of temporaries, nested?) read from the compiled block as laid out at the pinned commit: `_prefix` a list of
    (symbol, lambdified callable whose docstring shows the expression). This is measurement only (non-triviality and the
    evidence distribution): the Python back-end is judged by the VALUES it produces, so a refactoring that stores its
    temporaries differently must neither fail nor break this check; None when the layout is not recognised."""
    try:
        temps = [str(t) for t, _ in block._prefix]
        nested = False
        for t, fn in block._prefix:
            doc = fn.__doc__ or ""
            if "return" in doc and TEMP.search(doc.split("return", 1)[1].split("Imported modules")[0]):
                nested = True
        return len(temps), nested
    except Exception:
        return None


def python_part(spec, ctx):
    m = spec["model"]
    st_, ct = sorted(m["state"]), sorted(m["control"])
    with ctx.watchdog(40):
        with ctx.formak("compile_ekf:cse=on", spec):
            on = models.compile_py_ekf(m, common_subexpression_elimination=True)
        with ctx.formak("compile_ekf:cse=off", spec):
            off = models.compile_py_ekf(m, common_subexpression_elimination=False)
    ntemps, nested = 0, False
    try:
        blocks = [on._state_model._impl, on._impl_process_jacobian, on._impl_control_jacobian]
        blocks += [sm._impl for sm in on.sensor_models.values()]
        blocks += list(on._impl_sensor_jacobians.values())
        stats = [prefix_stats(b) for b in blocks]
    except Exception:
        stats = [None]
    if any(s_ is None for s_ in stats):
        ctx.event("py_block_layout_unrecognised(sympy.cse_used_for_stats)")
        ntemps, nested = models.cse_stats(m)
    else:
        for nt_b, nested_b in stats:
            ntemps, nested = max(ntemps, nt_b), nested or (nested_b and nt_b >= 2)

    for x in spec["process"]:
        p, P = x["point"], x["P"]
        dt = p[m["dt"]]
        res = {}
        for tag, f in (("on", on), ("off", off)):
            state, control, cov = ekf.state_of(f, m, p), ekf.control_of(f, m, p), ekf.cov_of(f, P)
            with ctx.formak(f"evaluate:cse={tag}", spec):
                pm = f.process_model(dt, state, cov, control)
                res[tag] = {
                    "G": np.asarray(f.process_jacobian(dt, state, control), float),
                    "V": np.asarray(f.control_jacobian(dt, state, control), float),
                    "px": np.asarray(pm.state.data, float), "pP": np.asarray(pm.covariance.data, float),
                }
                for key in sorted(m["sensors"]):
                    res[tag][f"h:{key}"] = np.asarray(f.sensor_models[key].model(state).data, float)
                    res[tag][f"H:{key}"] = np.asarray(f.sensor_jacobian(key, state), float)
        with mp.workdps(oracle.DPS):
            env = {k: mp.mpf(v) for k, v in oracle.env_of(m, p).items()}
            refm = oracle.ref_model(m, p)
            jr = oracle.ref_jac({s: m["trees"][s] for s in st_}, st_ + ct, env)
            xref, Pref, Pscale, G, V = oracle.ref_predict(m, p, oracle.mp_from_np(np.array(P, float)))
            for tag in ("on", "off"):
                for i, s in enumerate(st_):
                    if not oracle.close(res[tag]["px"][i, 0], refm[s][0], refm[s][1]):
                        ctx.fail(f"python:value:model:cse={tag}", f"state {s!r}: {res[tag]['px'][i, 0]!r} ref {float(refm[s][0])!r}", spec)
                c03.check_matrix(ctx, spec, f"process_jacobian:cse={tag}", res[tag]["G"], st_, st_, jr, (len(st_), len(st_)))
                c03.check_matrix(ctx, spec, f"control_jacobian:cse={tag}", res[tag]["V"], st_, ct, jr, (len(st_), len(ct)))
                ok, w = oracle.mat_close(res[tag]["pP"], Pref, Pscale)
                if not ok:
                    ctx.fail(f"python:value:predict:cse={tag}", f"{w}", spec)
                for key in sorted(m["sensors"]):
                    rd = sorted(m["sensors"][key])
                    hr = oracle.ref_jac({r: m["sensors"][key][r] for r in rd}, st_, env)
                    c03.check_matrix(ctx, spec, f"sensor_jacobian:cse={tag}", res[tag][f"H:{key}"], rd, st_, hr, (len(rd), len(st_)))
            well = oracle.amplification(m, p) <= 1e8
            if not well:
                ctx.event("ill_conditioned_point(direct_on_off_comparison_skipped)")
            for name in res["on"]:
                a, b = res["on"][name], res["off"][name]
                if a.shape != b.shape or not well:
                    if a.shape != b.shape:
                        ctx.fail("python:cse-on-vs-off", f"{name}: shapes {a.shape} vs {b.shape}", spec)
                    continue
                if np.max(np.abs(a - b), initial=0.0) > 1e-7 * max(1.0, float(np.max(np.abs(a), initial=0.0))):
                    ctx.fail("python:cse-on-vs-off", f"{name}: on {a.ravel()} off {b.ravel()}", spec)
    up = spec["update"]
    outs = {}
    for tag, f in (("on", on), ("off", off)):
        with ctx.formak(f"sensor_model:cse={tag}", spec):
            P = ekf.rescale_for_sensor(m, up["key"], up["point"], up["P"])
            o = f.sensor_model(ekf.state_of(f, m, up["point"]), ekf.cov_of(f, P), sensor_key=up["key"],
                               sensor_reading=f.make_reading(up["key"], **up["z"]))
            outs[tag] = (np.asarray(o.state.data, float), np.asarray(o.covariance.data, float))
    for a, b in zip(outs["on"], outs["off"]):
        if oracle.amplification(m, up["point"]) <= 1e8 and np.max(np.abs(a - b)) > 1e-7 * max(1.0, float(np.max(np.abs(a)))):
            ctx.fail("python:cse-on-vs-off", f"sensor update: on {a.ravel()} off {b.ravel()}", spec)
    return ntemps, nested


def cpp_part(spec, ctx):
    m = spec["model"]
    lines = [H.process_line(m, x["point"], x["P"]) for x in spec["process"]]
    up = spec["update"]
    P = ekf.rescale_for_sensor(m, up["key"], up["point"], up["P"])
    lines.append(H.sensor_line(m, up["key"], up["point"], P, up["z"]))
    runs = {}
    for tag, cse in (("on", True), ("off", False)):
        mm = dict(m)
        mm["config"] = dict(m["config"], cse=cse)
        runs[tag] = c02.run_cpp(ctx, spec, mm, lines, "ekf")
        ctx.add_extra("programs_compiled", 1)
    (pre_on, cs_on, info_on), (pre_off, cs_off, info_off) = runs["on"], runs["off"]
    if "double _t" in info_off["source"]:
        ctx.fail("cpp:cse-off-has-temporaries", "", spec)
    problems, ntemps, nested = ssa_check(info_on["source"])
    if problems:
        ctx.fail("cpp:ssa", "\n".join(problems[:10]), spec)
    if pre_on["idx"] != pre_off["idx"]:
        ctx.fail("cpp:layout-differs-with-cse", f"{pre_on['idx']} vs {pre_off['idx']}", spec)
    pts_ = [x["point"] for x in spec["process"]] + [up["point"]]
    for (ca, cb), pt_ in zip(zip(cs_on, cs_off), pts_):
        if oracle.amplification(m, pt_) > 1e8:
            ctx.event("ill_conditioned_point(direct_on_off_comparison_skipped)")
            continue
        for tag in ca:
            if not isinstance(ca[tag], dict):
                if ca[tag] != cb.get(tag):
                    ctx.fail("cpp:cse-on-vs-off", f"{tag}: {ca[tag]} vs {cb.get(tag)}", spec)
                continue
            for idx, va in ca[tag].items():
                vb = cb[tag].get(idx)
                if vb is None or va != va or vb != vb or abs(va - vb) > 1e-7 * max(1.0, abs(va), abs(vb)):
                    ctx.fail("cpp:cse-on-vs-off", f"{tag}{idx}: on {va!r} off {vb!r}", spec)
    maps = c02.raw_maps(ctx, spec, pre_on, m)
    for c, x in zip(cs_on, spec["process"]):
        c02.check_process_case(ctx, spec, m, maps, c, x["point"])
    c02.check_sensor_case(ctx, spec, m, maps, cs_on[-1], up["key"], {"point": up["point"]})
    return ntemps, nested


def case(spec, ctx):
    ctxmod.import_formak()
    if "points" in spec and "layer" not in spec:  # a plain-model case (replay of the py-model phase)
        return model_case(spec, ctx)
    m = spec["model"]
    n_sym, nested_sym = models.cse_stats(m)
    if spec["layer"] == "python":
        nt, nested = python_part(spec, ctx)
        nontrivial = nt >= 2 and nested
        ctx.event("py_case")
        if nt >= 2:
            ctx.event("py_block_with>=2_temporaries")
        if nested:
            ctx.event("py_nested_temporaries")
    else:
        nt, nested = cpp_part(spec, ctx)
        nontrivial = nt >= 2 and nested
        ctx.event("cpp_case")
        if nested:
            ctx.event("cpp_nested_temporaries")
    if nested_sym:
        ctx.event("sympy_cse_nested_on_model")
    if nontrivial:
        ctx.nontrivial(m)
        ctx.sample({"layer": spec["layer"], "state": m["state"], "trees": m["trees"], "sensors": m["sensors"],
                    "temporaries": nt})


def model_case(spec, ctx):
    """plain compiled models (no Jacobians): wider definitions than the filter layer admits, e.g. user-defined functions
    supplied through Config.python_modules, string-form updates, proactive_simplify; CSE on vs off and vs the reference"""
    from props import c01

    c01.case(spec, ctx)


def shard(ctx):
    from props import c01

    ctx.run_given(c01.cases(), model_case, examples=max(4, ctx.examples // 2), label="py-model", share=0.2)
    ctx.run_given(cases(cpp=False), case, label="py", share=0.4)
    ctx.run_given(cases(cpp=True), case, examples=ctx.budget["cpp_examples"], label="cpp")
