"""C09 — valid covariance in, valid covariance out, along any update history."""
from __future__ import annotations

import numpy as np
from hypothesis import strategies as st

from vlib import ctxmod, ekf, models

PROP_ID = "C09"
LEVEL = "exploration"
RULE = (
    "Histories (operation sequences drawn by Hypothesis, shrunk as one value) of up to 40 (quick) / 60 (thorough) steps "
    "over one filter: predict(dt in (0,max_dt], control in the box), predict_back(dt<0), update(sensor, reading = "
    "prediction + small or large innovation). Filters come from (i) Euler-form generated models, (ii) exactly-correlated "
    "templates x_k' = c*x_j + u whose process Jacobian is singular, (iii) the project's own mass/z/v/a example; the "
    "initial covariance is SPD (lambda in [0.05,20]), exactly rank-deficient PSD (A A^T), or nearly diagonal (off-diagonal 1e-7..1e-11 of the diagonal, exactly symmetric). After every step: the call "
    "must not refuse the covariance (AssertionError 'Negative Covariance'/symmetry) and the returned covariance C must "
    "satisfy max|C-C^T| <= 1e-9*max|C| and lambda_min(sym C) >= -0.5e-9*lambda_max - 0.5e-15 (strictly inside what the "
    "filter's own gate admits, so a covariance that passes the invariant can never be legitimately refused by the next "
    "call). A history is truncated (not failed) when |P| leaves [1e-6,1e3] or |x| exceeds 100 (bounded dynamic range: prior/noise <= 2e4; nonlinear sensor Jacobians stay <= ~3e4 so that eps*|H|^2*|P| stays below the sensor noise). Non-trivial = >=5 executed steps with "
    "both predictions and updates on a model whose process Jacobian is singular or whose initial covariance is rank "
    "deficient; distinct = sha1(case). The same kind of history (<= 25 steps, bounded range) is also run through the generated C++ filter (one compile per history): every covariance it returns from a valid one must be valid. A separate gate layer hands an identity-model filter covariances D C D whose per-state magnitudes span up to 13 decades, symmetric up to a perturbation of 1e-17..1e-14 of their largest entry: they must be accepted and returned unchanged up to 1e-9 of their magnitude (D16). A quarter of the cases are 'wide dynamic range' histories (prior L L^T up to ~1e6 with "
    "correlated states, sensor noise 1e-3..1e-1): there only the gate is judged: a refusal "
    "counts iff the refused input was symmetric/PSD to 1e-12 of its own magnitude; an output that is not strictly valid "
    "(accuracy there is eps*cond(S)*|prior|) truncates the history."
)
ASSUMPTIONS = [
    "the generated C++ filter has no validity gate of its own; for it only the 'valid in => valid out' clause is checked, on histories of <= 25 steps, against the Eigen stand-in",
    "noises in [0.05,2], initial eigenvalues in [0.05,20] (bounded noise/covariance ratios as the property's quantifier states)",
    "numpy eigvalsh decides the PSD predicate",
]
BUDGET = {
    "quick": {"shards": 16, "examples": 50, "wall": 110, "steps": 40, "cpp_examples": 2},
    "thorough": {"shards": 16, "examples": 3500, "wall": 900, "steps": 60, "cpp_examples": 40},
}

MASS = {
    "dt": "dt", "state": ["mass", "z", "v", "a"], "control": ["thrust"], "calib": [],
    "containers": {"state": "set", "control": "set", "calib": "set"}, "positive": [],
    "trees": {
        "mass": ["sym", "mass"],
        "z": ["add", ["sym", "z"], ["mul", ["sym", "dt"], ["sym", "v"]]],
        "v": ["add", ["sym", "v"], ["mul", ["sym", "dt"], ["sym", "a"]]],
        "a": ["add", ["mul", ["const", 7], ["sym", "mass"]], ["sym", "thrust"]],
    },
    "string_form": [], "calib_values": {}, "process_noise": {"thrust": 1.0},
    "sensors": {"simple": {"v": ["sym", "v"]}}, "sensor_noises": {"simple": {"v": 1.0}},
    "config": {"cse": True, "innov": 5.0, "max_dt": 0.1}, "pool_size": 0,
}


@st.composite
def correlated_model(draw):
    """x0' = x0 + dt*x1 ; x1' = c*x0 + u ; x2' = x1 (exact copies / linear combinations -> singular G)"""
    n = draw(st.integers(2, 4))
    names = [f"x{i}" for i in range(n)]
    trees = {"x0": ["add", ["sym", "x0"], ["mul", ["sym", "dt"], ["sym", "x1"]]]}
    for i in range(1, n):
        j = draw(st.integers(0, i - 1))
        c = draw(st.sampled_from([0, 5, 3, 11]))  # 1, 0.5, -1, -0.25
        trees[names[i]] = ["add", ["mul", ["const", c], ["sym", names[j]]], ["sym", "u"]] if draw(st.booleans()) \
            else ["mul", ["const", c], ["sym", names[j]]]
    sens_on = draw(st.sampled_from(names))
    m = {
        "dt": "dt", "state": names, "control": ["u"], "calib": [],
        "containers": {"state": "set", "control": "set", "calib": "set"}, "positive": [], "trees": trees,
        "string_form": [], "calib_values": {}, "process_noise": {"u": draw(models.noise_val())},
        "sensors": {"s": {"r": ["sym", sens_on]}}, "sensor_noises": {"s": {"r": draw(models.noise_val())}},
        "config": {"cse": draw(st.booleans()), "innov": draw(st.sampled_from([None, 5.0])), "max_dt": 0.1},
        "pool_size": 0,
    }
    if draw(st.booleans()) and n >= 3:
        m["sensors"]["s"]["r2"] = ["add", ["sym", names[0]], ["sym", names[2]]]
        m["sensor_noises"]["s"]["r2"] = draw(models.noise_val())
    return m


@st.composite
def cases(draw, steps=40, cpp=False):
    kind = draw(st.sampled_from(["euler", "correlated", "correlated", "mass"]))
    if kind == "euler":
        m = draw(models.model_specs(names="ident", n_state=(1, 3), n_control=(0, 2), n_calib=(0, 1), n_sensors=(1, 2),
                                    n_readings=(1, 2), depth=2, sensor_depth=1, euler="bounded", innovation=("none", "k"),
                                    allow_positive=False))
    elif kind == "correlated":
        m = draw(correlated_model())
    else:
        m = dict(MASS)
        m["process_noise"] = {"thrust": draw(models.noise_val())}
        m["sensor_noises"] = {"simple": {"v": draw(models.noise_val())}}
    n = len(m["state"])
    rank = draw(st.sampled_from([None, None, max(1, n - 1), 1])) if n > 1 else None
    P0 = draw(ekf.spd(n, lam=(0.05, 20.0), rank=rank))
    if n > 1 and rank is None and draw(st.integers(0, 2)) == 0:
        # nearly decoupled states: exactly symmetric, off-diagonal entries 1e-7..1e-11 of the diagonal scale, so that a
        # rounding-level asymmetry is tiny relative to the matrix but not relative to the element it sits in
        e = draw(st.sampled_from([1e-7, 1e-9, 1e-11]))
        lam = [draw(st.floats(0.05, 100.0, allow_nan=False)) for _ in range(n)]
        P0 = [[(lam[i] if i == j else e * draw(st.floats(-1, 1, allow_nan=False))) for j in range(n)] for i in range(n)]
        P0 = [[P0[min(i, j)][max(i, j)] for j in range(n)] for i in range(n)]
    # (linear sensors only: with a nonlinear sensor |H|^2 |P| eps can exceed the sensor noise at large states)
    wide = kind != "euler" and draw(st.integers(0, 2)) == 0 and not cpp
    if wide:
        # wide dynamic range: prior ~1e4..1e6 with correlated states and accurate sensors (noise 1e-3..1e-1)
        L = [[(draw(st.floats(-1, 1, allow_nan=False)) * 10.0 ** draw(st.integers(-1, 3)) if j < i else
               (draw(st.floats(0.2, 1, allow_nan=False)) * 10.0 ** draw(st.integers(-1, 3)) if j == i else 0.0))
              for j in range(n)] for i in range(n)]
        P0 = (np.array(L) @ np.array(L).T)
        P0 = ((P0 + P0.T) / 2).tolist()
        m = dict(m)
        m["sensor_noises"] = {k: {r: draw(st.sampled_from([1e-3, 1e-2, 1e-1])) for r in rs} for k, rs in m["sensor_noises"].items()}
    x0 = draw(models.points(m))
    ops = []
    for _ in range(draw(st.integers(5, steps))):
        k = draw(st.sampled_from(["predict", "predict", "update", "update", "predict_back"]))
        if k == "update":
            key = draw(st.sampled_from(sorted(m["sensors"])))
            ops.append({"op": "update", "key": key, "mag": draw(st.sampled_from([0.0, 0.01, 0.5, 3.0, 30.0])),
                        "dir": [draw(st.floats(-1, 1, allow_nan=False)) for _ in m["sensors"][key]]})
        else:
            frac = draw(st.one_of(st.just(1.0), st.floats(0.01, 1.0, allow_nan=False)))
            ops.append({"op": k, "frac": frac, "u": {c: draw(models.signed_val()) for c in m["control"]}})
    return {"kind": kind, "model": m, "P0": P0, "rank_deficient": rank is not None and rank < n, "x0": x0, "ops": ops,
            "wide": wide, "layer": "cpp" if cpp else "python"}


def valid(C):
    C = np.asarray(C, float)
    mx = float(np.max(np.abs(C), initial=0.0))
    asym = float(np.max(np.abs(C - C.T), initial=0.0))
    w = np.linalg.eigvalsh((C + C.T) / 2)
    lmin, lmax = float(w[0]), float(w[-1])
    ok = asym <= 1e-9 * mx and lmin >= -0.5e-9 * max(abs(lmax), abs(lmin)) - 0.5e-15
    return ok, asym, lmin, lmax, mx


def strictly_valid(C):
    """symmetric and PSD at rounding level relative to the covariance's OWN magnitude"""
    C = np.asarray(C, float)
    mx = float(np.max(np.abs(C), initial=0.0))
    w = np.linalg.eigvalsh((C + C.T) / 2)
    return float(np.max(np.abs(C - C.T), initial=0.0)) <= 1e-12 * mx and float(w[0]) >= -1e-12 * max(abs(float(w[-1])), mx) - 1e-15


def singular_jacobian(f, m, state, control):
    G = np.asarray(f.process_jacobian(m["config"]["max_dt"], state, control), float)
    s = np.linalg.svd(G, compute_uv=False)
    return s[-1] <= 1e-12 * max(1.0, s[0])


@st.composite
def gate_cases(draw):
    """the validity gate on its own: covariances D C D with a well-conditioned correlation-like C and per-state magnitudes
    10**e_i spread over many decades, symmetric up to a rounding-sized perturbation RELATIVE TO THEIR MAGNITUDE"""
    n = draw(st.integers(2, 4))
    C = draw(ekf.spd(n, lam=(0.5, 2.0)))
    exps = [draw(st.sampled_from([-3.0, -1.0, 0.0, 2.0, 5.0, 8.0, 10.0])) for _ in range(n)]
    pert = [[draw(st.floats(-1.0, 1.0, allow_nan=False)) for _ in range(n)] for _ in range(n)]
    return {"layer": "gate", "n": n, "C": C, "exps": exps, "pert": pert, "rel": draw(st.sampled_from([0.0, 1e-17, 1e-16, 1e-15, 1e-14]))}


_gate_filters = {}


def gate_case(spec, ctx):
    """x' = x filter (G = I, no process noise): process_model(dt) returns the covariance it was given, so the only thing
    that can happen to a valid covariance is that the filter refuses it"""
    from formak import python, ui

    n = spec["n"]
    if n not in _gate_filters:
        xs = [ui.Symbol(f"x{i}") for i in range(n)]
        model = ui.Model(dt=ui.Symbol("dt"), state=set(xs), control=set(), state_model={x: x for x in xs})
        _gate_filters[n] = python.compile_ekf(model, process_noise={}, sensor_models={"s": {"r": xs[0]}},
                                              sensor_noises={"s": {"r": 1.0}}, config=python.Config(innovation_filtering=None))
    f = _gate_filters[n]
    D = np.diag([10.0 ** e for e in spec["exps"]])
    P = D @ np.array(spec["C"], float) @ D
    P = (P + P.T) / 2
    mx = float(np.max(np.abs(P)))
    P = P + spec["rel"] * mx * np.triu(np.array(spec["pert"], float), 1)  # asymmetry of rounding size relative to |P|
    if not strictly_valid(P):
        ctx.skip("gate-case-not-strictly-valid")
    cov = f.Covariance.from_data(P)
    try:
        out = f.process_model(0.1, f.State(), cov)
    except AssertionError as e:
        where = ctxmod.formak_frame(e.__traceback__)
        ctx.fail(f"refused-valid-covariance:gate@{where}",
                 f"magnitudes 10**{spec['exps']}, asymmetry {spec['rel']:g} of max|P|={mx:g}: {str(e)[:200]}", spec)
    # (an implementation may symmetrise or re-factor its result: equal up to rounding relative to the magnitude, not bitwise)
    got = np.asarray(out.covariance.data, float)
    if got.shape != P.shape or not np.all(np.abs(got - P) <= 1e-9 * mx):
        ctx.fail("gate:identity-model-changed-covariance", f"max |P' - P| = {float(np.max(np.abs(got - P))) if got.shape == P.shape else got.shape!r} for max|P| = {mx:g}", spec)
    ctx.event(f"gate:decades={int(max(spec['exps']) - min(spec['exps']))}")
    if max(spec["exps"]) - min(spec["exps"]) >= 5 and spec["rel"] > 0:
        ctx.nontrivial(spec)


def case(spec, ctx):
    ctxmod.import_formak()
    if spec.get("layer") == "gate":
        return gate_case(spec, ctx)
    if spec.get("layer") == "cpp":
        return cpp_case(spec, ctx)
    m = spec["model"]
    with ctx.watchdog(30):
        with ctx.formak("compile_ekf", spec):
            f = models.compile_py_ekf(m)
    state = ekf.state_of(f, m, spec["x0"])
    cov = ekf.cov_of(f, spec["P0"])
    ok0 = valid(cov.data)[0]
    if not ok0:
        ctx.skip("generated-P0-not-psd")
    sing = singular_jacobian(f, m, state, f.Control(**{c: 0.3 for c in m["control"]}))
    max_dt = m["config"]["max_dt"]
    n_pred = n_upd = executed = 0
    wide = bool(spec.get("wide"))
    runmax = float(np.max(np.abs(cov.data)))
    for i, op in enumerate(spec["ops"]):
        before = cov.data.copy()
        try:
            if op["op"] == "update":
                sm = f.sensor_models[op["key"]]
                pred = np.asarray(sm.model(state).data, float)
                d = np.array(op["dir"], float).reshape((-1, 1))
                nd = float(np.linalg.norm(d))
                z = pred + (op["mag"] * d / nd if nd > 0 else 0.0)
                state, cov = f.sensor_model(state, cov, sensor_key=op["key"], sensor_reading=f.make_reading(op["key"], data=z))
                n_upd += 1
            else:
                dt = op["frac"] * max_dt * (-1.0 if op["op"] == "predict_back" else 1.0)
                control = f.Control(**op["u"])
                state, cov = f.process_model(dt, state, cov, control)
                n_pred += 1
        except AssertionError as e:
            okb, asym, lmin, lmax, mx = valid(before)
            where = ctxmod.formak_frame(e.__traceback__)
            if wide and not strictly_valid(before):
                # after cancellation against a much larger prior the input is PSD only relative to that prior; a refusal
                # of such an input is not judged (the property speaks of validity relative to the covariance's own magnitude)
                ctx.event("wide:legitimate_refusal_after_cancellation")
                break
            ctx.fail(f"refused-valid-covariance:{op['op']}@{where}",
                     f"step {i} ({op['op']}): filter raised AssertionError on an input covariance with lambda_min={lmin!r} "
                     f"lambda_max={lmax!r} asym={asym!r}: {str(e)[:300]}", spec)
        except (ctxmod.Violation, ctxmod.KnownFindingHit, ctxmod.SkipCase, ctxmod.CaseTimeout):
            raise
        except Exception as e:
            where = ctxmod.formak_frame(e.__traceback__)
            ctx.fail(f"step-raised:{type(e).__name__}@{where}", f"step {i} ({op}): {e!r}", spec)
        executed += 1
        C = np.asarray(cov.data, float)
        x = np.asarray(state.data, float)
        if not (np.all(np.isfinite(C)) and np.all(np.isfinite(x))):
            ctx.event("truncated_nonfinite")
            break
        okc, asym, lmin, lmax, mx = valid(C)
        runmax = max(runmax, mx)
        if wide:
            # In the wide class only the gate is judged ("a covariance that is valid relative to its own magnitude is never
            # refused"): the achievable accuracy of P - K H P there is eps*cond(S)*|P_prior| (measured: cond(S) ~ 2e8 with
            # a 4e4 prior, 1e-3 noise and redundant readings gives errors of 1e-4 on a posterior of 1e-4), so an output
            # that is no longer strictly valid ends the history instead of failing it.
            if not strictly_valid(C):
                ctx.event("wide:output_not_strictly_valid(history truncated)")
                break
            okc = True
        if not okc:
            ctx.fail(f"invalid-covariance-returned:{op['op']}",
                     f"step {i} ({op['op']}): returned covariance has asym={asym!r} lambda_min={lmin!r} lambda_max={lmax!r} "
                     f"(input was valid)", spec)
        nx = float(np.max(np.abs(x), initial=0.0))
        # dynamic range bound: the cancellation error of P - K H P is ~eps*|P_prior|; with noises >= 0.05 a prior
        # of 1e3 keeps it >= 50x below the invariant's 0.5e-9 (measured: priors ~1e6 give -1e-8 relative)
        if (mx > 1e3 and not wide) or mx > 1e9 or mx < 1e-6 or nx > (1e6 if wide else 100.0):
            ctx.event("truncated_out_of_range")
            break
    ctx.count(executed)
    ctx.event(f"kind={spec['kind']}")
    if sing:
        ctx.event("singular_process_jacobian")
    if spec["rank_deficient"]:
        ctx.event("rank_deficient_P0")
    if wide:
        ctx.event("wide_dynamic_range")
    ctx.event("steps_executed", executed)
    if executed >= 5 and n_pred and n_upd and (sing or spec["rank_deficient"]):
        ctx.nontrivial(spec)
        ctx.sample({"kind": spec["kind"], "state": m["state"], "trees": m["trees"], "rank_deficient_P0": spec["rank_deficient"],
                    "ops": spec["ops"][:6], "n_ops": len(spec["ops"])})


def cpp_case(spec, ctx):
    """the same kind of history through the generated C++ filter (templates process_model.cpp / sensor_model.hpp)"""
    from vlib import cppharness as H

    m = spec["model"]
    max_dt = m["config"]["max_dt"]
    ops = []
    for op in spec["ops"][:25]:
        if op["op"] == "update":
            d = np.array(op["dir"], float)
            nd = float(np.linalg.norm(d))
            delta = (op["mag"] * d / nd) if nd > 0 else d * 0.0
            ops.append(("S", op["key"], [float(v) for v in delta]))
        else:
            ops.append(("P", op["frac"] * max_dt * (-1.0 if op["op"] == "predict_back" else 1.0), op["u"]))
    try:
        with ctx.watchdog(60, "cpp-generation-timeout"):
            with ctx.formak("generate:ekf", spec, allow=(H.CppError,)):
                steps = H.run_history(m, spec["x0"], spec["P0"], ops)
    except H.CppError as e:
        if e.stage.endswith("timeout"):
            ctx.skip(e.stage)
        ctx.fail(f"cpp:{e.stage}", e.text[-3000:], spec)
    ctx.add_extra("cpp_programs", 1)
    prev_ok = valid(np.array(spec["P0"], float))[0]
    executed = 0
    for i, ((x, C), op) in enumerate(zip(steps, ops)):
        if not (np.all(np.isfinite(C)) and np.all(np.isfinite(x))):
            break
        okc, asym, lmin, lmax, mx = valid(C)
        if prev_ok and not okc:
            ctx.fail(f"cpp:invalid-covariance-returned:{'update' if op[0] == 'S' else 'predict'}",
                     f"step {i} ({op[0]}): generated C++ filter returned a covariance with asym={asym!r} lambda_min={lmin!r} "
                     f"lambda_max={lmax!r} from a valid one", spec)
        prev_ok = okc
        executed += 1
        if mx > 1e3 or mx < 1e-6 or float(np.max(np.abs(x), initial=0.0)) > 100.0:
            break
    ctx.count(executed)
    ctx.event("cpp_history")
    ctx.event("cpp_steps_executed", executed)
    if executed >= 5:
        ctx.nontrivial({"cpp": spec})
        ctx.sample({"layer": "cpp", "kind": spec["kind"], "state": m["state"], "ops": ops[:5], "n_ops": len(ops)}, limit=4)


def shard(ctx):
    ctx.run_given(gate_cases(), case, examples=max(20, ctx.examples // 2), label="gate", share=0.1)
    ctx.run_given(cases(steps=ctx.budget["steps"]), case, share=0.55)
    ctx.run_given(cases(steps=25, cpp=True), case, examples=ctx.budget.get("cpp_examples", 2), label="cpp")
