"""C09 — valid covariance in, valid covariance out, along any update history."""
from __future__ import annotations

import numpy as np
from hypothesis import strategies as st

from vlib import ctxmod, ekf, models

PROP_ID = "C09"
LEVEL = "exploration"
RULE = (
    "Histories (operation sequences drawn by Hypothesis, shrunk as one value) of up to 40 (quick) / 60 (thorough) steps "
    "over one filter: predict(dt in (0,max_dt], control in the box), predict_back(dt<0), update(sensor, reading = "
    "prediction + small or large innovation). Filters come from (i) Euler-form generated models, (ii) exactly-correlated "
    "templates x_k' = c*x_j + u whose process Jacobian is singular, (iii) the project's own mass/z/v/a example; the "
    "initial covariance is SPD (lambda in [0.05,20]) or exactly rank-deficient PSD (A A^T). After every step: the call "
    "must not refuse the covariance (AssertionError 'Negative Covariance'/symmetry) and the returned covariance C must "
    "satisfy max|C-C^T| <= 1e-9*max|C| and lambda_min(sym C) >= -0.5e-9*lambda_max - 0.5e-15 (strictly inside what the "
    "filter's own gate admits, so a covariance that passes the invariant can never be legitimately refused by the next "
    "call). A history is truncated (not failed) when |x| or |P| leaves [1e-6,1e6]. Non-trivial = >=5 executed steps with "
    "both predictions and updates on a model whose process Jacobian is singular or whose initial covariance is rank "
    "deficient; distinct = sha1(case)."
)
ASSUMPTIONS = [
    "noises in [0.05,2], initial eigenvalues in [0.05,20] (bounded noise/covariance ratios as the property's quantifier states)",
    "numpy eigvalsh decides the PSD predicate",
]
BUDGET = {
    "quick": {"shards": 16, "examples": 50, "wall": 110, "steps": 40},
    "thorough": {"shards": 16, "examples": 350, "wall": 1200, "steps": 60},
}

MASS = {
    "dt": "dt", "state": ["mass", "z", "v", "a"], "control": ["thrust"], "calib": [],
    "containers": {"state": "set", "control": "set", "calib": "set"}, "positive": [],
    "trees": {
        "mass": ["sym", "mass"],
        "z": ["add", ["sym", "z"], ["mul", ["sym", "dt"], ["sym", "v"]]],
        "v": ["add", ["sym", "v"], ["mul", ["sym", "dt"], ["sym", "a"]]],
        "a": ["add", ["mul", ["const", 7], ["sym", "mass"]], ["sym", "thrust"]],
    },
    "string_form": [], "calib_values": {}, "process_noise": {"thrust": 1.0},
    "sensors": {"simple": {"v": ["sym", "v"]}}, "sensor_noises": {"simple": {"v": 1.0}},
    "config": {"cse": True, "innov": 5.0, "max_dt": 0.1}, "pool_size": 0,
}


@st.composite
def correlated_model(draw):
    """x0' = x0 + dt*x1 ; x1' = c*x0 + u ; x2' = x1 (exact copies / linear combinations -> singular G)"""
    n = draw(st.integers(2, 4))
    names = [f"x{i}" for i in range(n)]
    trees = {"x0": ["add", ["sym", "x0"], ["mul", ["sym", "dt"], ["sym", "x1"]]]}
    for i in range(1, n):
        j = draw(st.integers(0, i - 1))
        c = draw(st.sampled_from([0, 5, 3, 11]))  # 1, 0.5, -1, -0.25
        trees[names[i]] = ["add", ["mul", ["const", c], ["sym", names[j]]], ["sym", "u"]] if draw(st.booleans()) \
            else ["mul", ["const", c], ["sym", names[j]]]
    sens_on = draw(st.sampled_from(names))
    m = {
        "dt": "dt", "state": names, "control": ["u"], "calib": [],
        "containers": {"state": "set", "control": "set", "calib": "set"}, "positive": [], "trees": trees,
        "string_form": [], "calib_values": {}, "process_noise": {"u": draw(models.noise_val())},
        "sensors": {"s": {"r": ["sym", sens_on]}}, "sensor_noises": {"s": {"r": draw(models.noise_val())}},
        "config": {"cse": draw(st.booleans()), "innov": draw(st.sampled_from([None, 5.0])), "max_dt": 0.1},
        "pool_size": 0,
    }
    if draw(st.booleans()) and n >= 3:
        m["sensors"]["s"]["r2"] = ["add", ["sym", names[0]], ["sym", names[2]]]
        m["sensor_noises"]["s"]["r2"] = draw(models.noise_val())
    return m


@st.composite
def cases(draw, steps=40):
    kind = draw(st.sampled_from(["euler", "correlated", "correlated", "mass"]))
    if kind == "euler":
        m = draw(models.model_specs(names="ident", n_state=(1, 3), n_control=(0, 2), n_calib=(0, 1), n_sensors=(1, 2),
                                    n_readings=(1, 2), depth=2, sensor_depth=1, euler=True, innovation=("none", "k")))
    elif kind == "correlated":
        m = draw(correlated_model())
    else:
        m = dict(MASS)
        m["process_noise"] = {"thrust": draw(models.noise_val())}
        m["sensor_noises"] = {"simple": {"v": draw(models.noise_val())}}
    n = len(m["state"])
    rank = draw(st.sampled_from([None, None, max(1, n - 1), 1])) if n > 1 else None
    P0 = draw(ekf.spd(n, lam=(0.05, 20.0), rank=rank))
    x0 = draw(models.points(m))
    ops = []
    for _ in range(draw(st.integers(5, steps))):
        k = draw(st.sampled_from(["predict", "predict", "update", "update", "predict_back"]))
        if k == "update":
            key = draw(st.sampled_from(sorted(m["sensors"])))
            ops.append({"op": "update", "key": key, "mag": draw(st.sampled_from([0.0, 0.01, 0.5, 3.0, 30.0])),
                        "dir": [draw(st.floats(-1, 1, allow_nan=False)) for _ in m["sensors"][key]]})
        else:
            frac = draw(st.one_of(st.just(1.0), st.floats(0.01, 1.0, allow_nan=False)))
            ops.append({"op": k, "frac": frac, "u": {c: draw(models.signed_val()) for c in m["control"]}})
    return {"kind": kind, "model": m, "P0": P0, "rank_deficient": rank is not None and rank < n, "x0": x0, "ops": ops}


def valid(C):
    C = np.asarray(C, float)
    mx = float(np.max(np.abs(C), initial=0.0))
    asym = float(np.max(np.abs(C - C.T), initial=0.0))
    w = np.linalg.eigvalsh((C + C.T) / 2)
    lmin, lmax = float(w[0]), float(w[-1])
    ok = asym <= 1e-9 * mx and lmin >= -0.5e-9 * max(abs(lmax), abs(lmin)) - 0.5e-15
    return ok, asym, lmin, lmax, mx


def singular_jacobian(f, m, state, control):
    G = np.asarray(f.process_jacobian(m["config"]["max_dt"], state, control), float)
    s = np.linalg.svd(G, compute_uv=False)
    return s[-1] <= 1e-12 * max(1.0, s[0])


def case(spec, ctx):
    ctxmod.import_formak()
    m = spec["model"]
    with ctx.watchdog(30):
        with ctx.formak("compile_ekf", spec):
            f = models.compile_py_ekf(m)
    state = ekf.state_of(f, m, spec["x0"])
    cov = ekf.cov_of(f, spec["P0"])
    ok0 = valid(cov.data)[0]
    if not ok0:
        ctx.skip("generated-P0-not-psd")
    sing = singular_jacobian(f, m, state, f.Control(**{c: 0.3 for c in m["control"]}))
    max_dt = m["config"]["max_dt"]
    n_pred = n_upd = executed = 0
    for i, op in enumerate(spec["ops"]):
        before = cov.data.copy()
        try:
            if op["op"] == "update":
                sm = f.sensor_models[op["key"]]
                pred = np.asarray(sm.model(state).data, float)
                d = np.array(op["dir"], float).reshape((-1, 1))
                nd = float(np.linalg.norm(d))
                z = pred + (op["mag"] * d / nd if nd > 0 else 0.0)
                state, cov = f.sensor_model(state, cov, sensor_key=op["key"], sensor_reading=f.make_reading(op["key"], data=z))
                n_upd += 1
            else:
                dt = op["frac"] * max_dt * (-1.0 if op["op"] == "predict_back" else 1.0)
                control = f.Control(**op["u"])
                state, cov = f.process_model(dt, state, cov, control)
                n_pred += 1
        except AssertionError as e:
            okb, asym, lmin, lmax, mx = valid(before)
            where = ctxmod.formak_frame(e.__traceback__)
            ctx.fail(f"refused-valid-covariance:{op['op']}@{where}",
                     f"step {i} ({op['op']}): filter raised AssertionError on an input covariance with lambda_min={lmin!r} "
                     f"lambda_max={lmax!r} asym={asym!r}: {str(e)[:300]}", spec)
        except (ctxmod.Violation, ctxmod.KnownFindingHit, ctxmod.SkipCase, ctxmod.CaseTimeout):
            raise
        except Exception as e:
            where = ctxmod.formak_frame(e.__traceback__)
            ctx.fail(f"step-raised:{type(e).__name__}@{where}", f"step {i} ({op}): {e!r}", spec)
        executed += 1
        C = np.asarray(cov.data, float)
        x = np.asarray(state.data, float)
        if not (np.all(np.isfinite(C)) and np.all(np.isfinite(x))):
            ctx.event("truncated_nonfinite")
            break
        okc, asym, lmin, lmax, mx = valid(C)
        if not okc:
            ctx.fail(f"invalid-covariance-returned:{op['op']}",
                     f"step {i} ({op['op']}): returned covariance has asym={asym!r} lambda_min={lmin!r} lambda_max={lmax!r} "
                     f"(input was valid)", spec)
        nx = float(np.max(np.abs(x), initial=0.0))
        if mx > 1e6 or mx < 1e-6 or nx > 1e6:
            ctx.event("truncated_out_of_range")
            break
    ctx.count(executed)
    ctx.event(f"kind={spec['kind']}")
    if sing:
        ctx.event("singular_process_jacobian")
    if spec["rank_deficient"]:
        ctx.event("rank_deficient_P0")
    ctx.event("steps_executed", executed)
    if executed >= 5 and n_pred and n_upd and (sing or spec["rank_deficient"]):
        ctx.nontrivial(spec)
        ctx.sample({"kind": spec["kind"], "state": m["state"], "trees": m["trees"], "rank_deficient_P0": spec["rank_deficient"],
                    "ops": spec["ops"][:6], "n_ops": len(spec["ops"])})


def shard(ctx):
    ctx.run_given(cases(steps=ctx.budget["steps"]), case)
