"""C07 — Python and generated C++ filters agree step for step (state, covariance, innovation, accept/reject)."""
from __future__ import annotations

import math

import mpmath as mp
import numpy as np
from hypothesis import strategies as st

from props import c02
from vlib import cppharness as H
from vlib import ctxmod, ekf, models, oracle

PROP_ID = "C07"
LEVEL = "exploration"
RULE = (
    "One generated definition (identifier names; control x calibration combination forced round-robin over all four; "
    "both CSE settings; k in [0.5,8] or disabled; 1..2 sensors of 1..3 readings) is compiled by python.compile_ekf and "
    "generated+compiled by cpp.compile_ekf / g++. 4 predictions (dt both signs and exactly 0, consecutive inputs sharing dt/state/control groups, SPD covariance, control) and 4 sensor "
    "updates (readings targeted at 0.2/0.9/1.1/5 x threshold so no decision is within rounding of the boundary) are fed "
    "to both through named fields. Oracle: C++ state/covariance/stored innovation equal Python's by name within "
    "1e-9*abs-scale, accept/reject identical, and both equal the textbook mpmath EKF (so 'both wrong the same way' is "
    "caught). Non-trivial = >=2 states and at least one rejected and one accepted update in the case; distinct = "
    "sha1(model spec)."
)
ASSUMPTIONS = c02.ASSUMPTIONS + ["decisions are compared only away from the threshold (tau in {0.2,0.9,1.1,5})"]
BUDGET = {
    "quick": {"shards": 16, "examples": 8, "wall": 120},
    "thorough": {"shards": 16, "examples": 1000, "wall": 900},
}


def cases(combo, innovation):
    @st.composite
    def _c(draw):
        spec = draw(models.model_specs(names="ident", n_state=(1, 4), n_control=(1, 2), n_calib=(1, 2),
                                       n_sensors=(1, 2), n_readings=(1, 3), depth=2, sensor_depth=2, combo=combo,
                                       innovation=innovation, template="mixed"))
        n = len(spec["state"])
        preds = [{"point": pt, "P": draw(ekf.spd(n))} for pt in draw(models.point_sequences(spec, 4, extra_zero_dt=True))]
        ups = []
        for tau in draw(st.permutations([0.2, 0.9, 1.1, 5.0])):
            ups.append({"key": draw(st.sampled_from(sorted(spec["sensors"]))), "point": draw(models.points(spec)),
                        "P": draw(ekf.spd(n)), "dir": [draw(st.floats(-1, 1, allow_nan=False)) for _ in range(3)],
                        "tau": tau})
        return {"model": spec, "predictions": preds, "updates": ups}

    return _c()


def named_vec(values, raws):
    return np.array([[values[(r,)]] for r in raws])


def named_mat(values, rraws, craws):
    return np.array([[values[(a, b)] for b in craws] for a in rraws])


def case(spec, ctx):
    ctxmod.import_formak()
    m = spec["model"]
    st_ = sorted(m["state"])
    n = len(st_)
    k = m["config"]["innov"]
    with ctx.watchdog(25):
        with ctx.formak("python:compile_ekf", spec):
            f = models.compile_py_ekf(m)

    lines = [H.process_line(m, x["point"], x["P"]) for x in spec["predictions"]]
    prepared = []
    for up in spec["updates"]:
        key, p = up["key"], up["point"]
        msize = len(m["sensors"][key])
        P = ekf.rescale_for_sensor(m, key, p, up["P"])
        target = float(up["tau"] * ekf.threshold(k if k is not None else 3.0, msize))
        z = ekf.targeted_reading(m, key, p, P, up["dir"], target)
        prepared.append((up, key, p, P, z, (k is not None and up["tau"] > 1), msize))
        lines.append(H.sensor_line(m, key, p, P, z))

    pre, cs, info = c02.run_cpp(ctx, spec, m, lines, "ekf")
    ctx.add_extra("programs_compiled", 1)
    maps = c02.raw_maps(ctx, spec, pre, m)
    c02.check_prelude(ctx, spec, pre, m)  # named fields: Options constructors, const/non-const accessors, Config constants
    sraw = [pre["idx"][("state", i)] for i in range(n)]

    # predictions
    for c, x in zip(cs, spec["predictions"]):
        p, P = x["point"], x["P"]
        with ctx.formak("python:process_model", spec):
            out = f.process_model(p[m["dt"]], ekf.state_of(f, m, p), ekf.cov_of(f, P), ekf.control_of(f, m, p))
        px, pP = np.asarray(out.state.data, float), np.asarray(out.covariance.data, float)
        cx, cP = named_vec(c["px"], sraw), named_mat(c["pP"], sraw, sraw)
        with mp.workdps(oracle.DPS):
            xref, Pref, Pscale, G, V = oracle.ref_predict(m, p, oracle.mp_from_np(np.array(P, float)))
            refm = oracle.ref_model(m, p)
            xr = mp.matrix([refm[s][0] for s in st_])
            xs = mp.matrix([refm[s][1] for s in st_])
            for who, gx, gP in (("python", px, pP), ("cpp", cx, cP)):
                ok1, w1 = oracle.mat_close(gx, xr, xs)
                ok2, w2 = oracle.mat_close(gP, Pref, Pscale)
                if not (ok1 and ok2):
                    ctx.fail(f"predict:{who}-vs-reference", f"state {w1} covariance {w2} (names {st_})", spec)
            # direct differential (tolerance from the same scale)
            for i in range(n):
                if abs(px[i, 0] - cx[i, 0]) > 2e-9 * max(1.0, float(xs[i])):
                    ctx.fail("predict:python-vs-cpp", f"state {st_[i]!r}: python {px[i, 0]!r} C++ {cx[i, 0]!r}", spec)
                for j in range(n):
                    if abs(pP[i, j] - cP[i, j]) > 2e-9 * max(1.0, float(Pscale[i, j])):
                        ctx.fail("predict:python-vs-cpp", f"P[{st_[i]!r},{st_[j]!r}]: python {pP[i, j]!r} C++ {cP[i, j]!r}", spec)

    # updates
    saw_reject = saw_accept = False
    for c, (up, key, p, P, z, expect_discard, msize) in zip(cs[len(spec["predictions"]):], prepared):
        rd = sorted(m["sensors"][key])
        state, cov = ekf.state_of(f, m, p), ekf.cov_of(f, P)
        x_in, P_in = state.data.copy(), cov.data.copy()
        with ctx.formak("python:sensor_model", spec):
            out = f.sensor_model(state, cov, sensor_key=key, sensor_reading=f.make_reading(key, **z))
            py_y = np.array(f.innovations[key], float)
        px, pP = np.asarray(out.state.data, float), np.asarray(out.covariance.data, float)
        cx, cP = named_vec(c["ux"], sraw), named_mat(c["uP"], sraw, sraw)
        py_rej = np.array_equal(px, x_in) and np.array_equal(pP, P_in)
        cc_rej = np.array_equal(cx, x_in) and np.array_equal(cP, P_in)
        si = sorted(m["sensors"]).index(key)
        rraw = [pre["idx"][("reading", si, ri)] for ri in range(msize)]
        if c.get("uyp") != 1:
            ctx.fail("update:cpp-innovation-missing", f"sensor {key}", spec)
        cy = named_vec(c["uy"], rraw)
        with mp.workdps(oracle.DPS):
            ref = oracle.ref_update(m, key, {s: p[s] for s in m["state"]}, oracle.mp_from_np(np.array(P, float)), z)
            if py_rej != expect_discard or cc_rej != expect_discard:
                # K*y == 0 (sensor independent of the state) looks like a rejection without being one
                moved = any(abs(ref["x"][i] - mp.mpf(p[s])) > 1e-12 for i, s in enumerate(st_))
                if moved or expect_discard:
                    ctx.fail("update:decision", f"k={k} tau={up['tau']} NIS={float(ref['nis'])!r}: expected discard={expect_discard}, python={py_rej} C++={cc_rej}", spec)
            yscale = mp.matrix([[abs(ref["hx"][i]) + abs(mp.mpf(z[r]))] for i, r in enumerate(rd)])
            for who, gy in (("python", py_y), ("cpp", cy)):
                ok, w = oracle.mat_close(gy, ref["y"], yscale)
                if not ok:
                    ctx.fail(f"update:{who}-innovation", f"{w} readings {rd}", spec)
            if not expect_discard:
                for who, gx, gP in (("python", px, pP), ("cpp", cx, cP)):
                    ok1, w1 = oracle.mat_close(gx, ref["x"], ref["x_scale"])
                    ok2, w2 = oracle.mat_close(gP, ref["P"], ref["P_scale"])
                    if not (ok1 and ok2):
                        ctx.fail(f"update:{who}-vs-reference", f"state {w1} covariance {w2} sensor {key} m={msize}", spec)
                for i in range(n):
                    if abs(px[i, 0] - cx[i, 0]) > 2e-9 * max(1.0, float(ref["x_scale"][i])):
                        ctx.fail("update:python-vs-cpp", f"state {st_[i]!r}: {px[i, 0]!r} vs {cx[i, 0]!r}", spec)
                    for j in range(n):
                        if abs(pP[i, j] - cP[i, j]) > 2e-9 * max(1.0, float(ref["P_scale"][i, j])):
                            ctx.fail("update:python-vs-cpp", f"P[{i},{j}]: {pP[i, j]!r} vs {cP[i, j]!r}", spec)
                saw_accept = True
            else:
                saw_reject = True

    ctx.event(f"combo:control={bool(m['control'])},calibration={bool(m['calib'])}")
    ctx.event("cse_on" if m["config"]["cse"] else "cse_off")
    ctx.event("filtering_disabled" if k is None else "filtering_k")
    if n >= 2 and saw_accept and (saw_reject or k is None):
        ctx.nontrivial(m)
        ctx.sample({"state": m["state"], "control": m["control"], "calib": m["calib"], "config": m["config"],
                    "sensors": m["sensors"], "lines": lines[:1] + lines[-1:]})


def shard(ctx):
    per = max(2, math.ceil(ctx.examples / 4))
    for i in range(4):
        combo = c02.COMBOS[(i + ctx.shard) % 4]
        inn = ("none",) if (i + ctx.shard // 4) % 4 == 0 else ("k",)
        ctx.run_given(cases(combo, inn), case, examples=per, label=f"combo{combo}{inn}", share=0.25)
