"""C17 — estimator parameters round-trip; fitting only retunes noise."""
from __future__ import annotations

import contextlib
import copy
import dataclasses
import inspect
import io
import math
import warnings

import numpy as np
from hypothesis import strategies as st

from props import c16
from vlib import ctxmod, models

PROP_ID = "C17"
LEVEL = "exploration"
RULE = (
    "Parameters: Hypothesis draws estimators with an explicit Config over definitions with 0..3 controls, 1..3 sensors of "
    "1..3 readings; checked: set_params(**get_params()) and sklearn.base.clone leave get_params() deep-equal (ui.Model "
    "compared field by field); for EVERY Config field, set_params(field=generated value) changes exactly that field and "
    "nothing else, and 2..4 fields passed in one call (generated order) all take their values; an unknown parameter name raises; _inverse_flatten_scoring_params(_flatten_scoring_params()) "
    "reproduces both noise maps. Fit: small Euler-form estimators and generated training matrices (6..24 rows, values in "
    "+-[0.1,3], optionally scaled); outcome must be MinimizationFailure, or an estimator whose symbolic_model, "
    "sensor_models, calibration_map and config equal a snapshot taken before, whose noise maps have exactly the "
    "original key sets, all magnitudes finite, process noise > 0; any other exception is a violation bucketed by "
    "exception type and raising frame. Non-trivial = >=2 controls or a sensor with >=2 readings (flattening order "
    "matters); for fit additionally that the optimiser changed some noise value; distinct = sha1(case)."
)
ASSUMPTIONS = [
    "estimators are created with an explicit Config (the property's quantifier)",
    "training data on which the initial score itself is undefined (sum NIS = 0) are outside the domain",
]
BUDGET = {
    "quick": {"shards": 16, "examples": 40, "wall": 110, "fit_examples": 4},
    "thorough": {"shards": 16, "examples": 25000, "wall": 900, "fit_examples": 350},
}
FIELDS = {
    "common_subexpression_elimination": st.booleans(),
    "extra_validation": st.booleans(),
    "max_dt_sec": st.floats(1e-3, 10.0, allow_nan=False),
    "innovation_filtering": st.one_of(st.none(), st.floats(0.1, 20.0, allow_nan=False)),
    "python_modules": st.sampled_from([("numpy",), ("math",), ("scipy", "numpy", "math")]),
}


@st.composite
def param_cases(draw):
    m = draw(models.model_specs(calib_types=("float", "npfloat", "npfloat32"), names=draw(st.sampled_from(["ident", "free"])), n_state=(1, 3), n_control=(0, 3), n_calib=(0, 1),
                                n_sensors=(1, 3), n_readings=(1, 3), depth=1, sensor_depth=1, allow_positive=False, cse=False))
    sets = {k: draw(v) for k, v in FIELDS.items()}
    names_ = draw(st.lists(st.sampled_from(sorted(FIELDS)), min_size=2, max_size=4, unique=True))
    multi = {k: draw(FIELDS[k]) for k in draw(st.permutations(names_))}
    return {"layer": "params", "model": m, "set": sets, "multi": multi, "bogus": draw(st.sampled_from(["nope", "max_dt", "process_noises", "Config", "x"]))}


def model_fields(um):
    return (um.dt, set(um.state), set(um.control), set(um.calibration), dict(um.state_model))


def params_equal(a, b):
    for k in ("process_noise", "sensor_models", "sensor_noises", "calibration_map", "config"):
        if a[k] != b[k] or (k in ("process_noise", "sensor_noises", "calibration_map") and not models.same_values(a[k], b[k])):
            return False, k
    if model_fields(a["symbolic_model"]) != model_fields(b["symbolic_model"]):
        return False, "symbolic_model"
    return True, None


def param_case(spec, ctx):
    from sklearn.base import clone

    m = spec["model"]
    with ctx.formak("Create", spec):
        ad = c16.make_adapter(m)
    base = copy.deepcopy({k: v for k, v in ad.get_params().items() if k != "symbolic_model"})
    base["symbolic_model"] = ad.get_params()["symbolic_model"]
    with ctx.formak("set_params(**get_params())", spec):
        ret = ad.set_params(**ad.get_params())
    ok, k = params_equal(base, ad.get_params())
    if not ok or ret is not ad:
        ctx.fail("get-then-set-changed", f"field {k}", spec)
    with ctx.formak("clone", spec):
        c = clone(ad)
    ok, k = params_equal(base, c.get_params())
    if not ok:
        ctx.fail("clone-changed", f"field {k}", spec)
    for field, value in spec["set"].items():
        before = ad.get_params()
        cfg_before = dataclasses.asdict(before["config"])
        with ctx.formak(f"set_params({field})", spec):
            ad.set_params(**{field: value})
        after = ad.get_params()
        cfg_after = dataclasses.asdict(after["config"])
        want = dict(cfg_before)
        want[field] = value
        if cfg_after != want:
            ctx.fail(f"set_params-config-field:{field}", f"set {field}={value!r}: config {cfg_before} -> {cfg_after}", spec)
        for kk in ("process_noise", "sensor_models", "sensor_noises", "calibration_map"):
            if after[kk] != base[kk]:
                ctx.fail(f"set_params-touched-other:{kk}", f"setting {field}", spec)
        if after["symbolic_model"] is not base["symbolic_model"]:
            ctx.fail("set_params-touched-other:symbolic_model", f"setting {field}", spec)
    # several configuration fields in ONE call: each passed field takes its value, the others keep theirs
    multi = spec.get("multi") or {}
    if len(multi) >= 2:
        before = dataclasses.asdict(ad.get_params()["config"])
        with ctx.formak("set_params(multi)", spec):
            ad.set_params(**multi)
        want = dict(before)
        want.update(multi)
        got = dataclasses.asdict(ad.get_params()["config"])
        if got != want:
            ctx.fail("set_params-several-fields-in-one-call", f"set {multi}: config {before} -> {got}, expected {want}", spec)
        ctx.event("multi_field_set_params")
    try:
        ad.set_params(**{spec["bogus"]: 1})
        ctx.fail("unknown-parameter-accepted", f"set_params({spec['bogus']}=1)", spec)
    except (ctxmod.Violation, ctxmod.KnownFindingHit):
        raise
    except Exception:
        pass
    # after the estimator has been used, nothing but the documented parameters (and Config fields) may be settable: every
    # other attribute the instance has grown by then is an unknown parameter name
    used = c16.make_adapter(m)
    width = len(m["control"]) + sum(len(r) for r in m["sensors"].values())
    try:
        used.transform(np.full((2, width), 0.37))
    except Exception:
        used = None
    if used is not None:
        known = set(used.get_params()) | set(dataclasses.asdict(used.config))
        for name in sorted(set(vars(used)) - known) + ["model_", "allowed_keys", "get_params"]:
            try:
                used.set_params(**{name: None})
                accepted = True
            except Exception:
                accepted = False
            if accepted:
                ctx.fail("unknown-parameter-accepted", f"after transform(), set_params({name}=...) is accepted although {name!r} is not a parameter", spec)
        ctx.event("unknown_names_after_use_checked")
    # the private flatten / inverse-flatten pair behind fit (named in the property's anchors): checked when it exists in the
    # pinned shape; a refactoring that renames or re-shapes these helpers is not a violation (fit itself is checked below)
    ad2 = c16.make_adapter(m)
    fl, inv = getattr(ad2, "_flatten_scoring_params", None), getattr(ad2, "_inverse_flatten_scoring_params", None)
    try:
        pinned_shape = (callable(fl) and callable(inv) and len(inspect.signature(fl).parameters) == 0
                        and len(inspect.signature(inv).parameters) == 1)
    except (TypeError, ValueError):
        pinned_shape = False
    if pinned_shape:
        with ctx.formak("flatten-roundtrip", spec):
            flat = fl()
            back = inv(list(flat))
        n_expected = len(m["control"]) + sum(len(r) for r in m["sensors"].values())
        if len(flat) != n_expected:
            ctx.fail("flatten-length", f"{len(flat)} values for {n_expected} noise magnitudes", spec)
        if not (isinstance(back, dict) and "process_noise" in back and "sensor_noises" in back):
            ctx.event("flatten_helpers_other_shape")
        else:
            pn = {str(k): v for k, v in back["process_noise"].items()}
            if pn != {c_: m["process_noise"][c_] for c_ in m["control"]}:
                ctx.fail("flatten-roundtrip:process_noise", f"{pn} vs {m['process_noise']}", spec)
            if {k: {str(r): x for r, x in v.items()} for k, v in back["sensor_noises"].items()} != m["sensor_noises"]:
                ctx.fail("flatten-roundtrip:sensor_noises", f"{back['sensor_noises']} vs {m['sensor_noises']}", spec)
        if isinstance(back, dict) and "process_noise" in back and len(m["control"]) >= 2:
            # what fit does with the optimiser's last vector: a term far below the floor next to a large one (the shape the
            # minimiser ends in when it pins one control's noise) must still come back strictly positive and finite
            probe = [float(v_) for v_ in flat]
            probe[0], probe[1] = 1e-9, 5.0
            with ctx.formak("inverse-flatten:pinned-term", spec):
                back2 = inv(list(probe))
            vals = [float(v_) for v_ in back2["process_noise"].values()]
            if not all(math.isfinite(v_) and v_ > 0 for v_ in vals):
                ctx.fail("fit-nonpositive-process-noise:inverse-flatten", f"optimiser vector {probe[:len(m['control'])]} -> process noise {back2['process_noise']}", spec)
            ctx.event("inverse_flatten_pinned_term_checked")
        ctx.event("flatten_roundtrip_checked")
    else:
        ctx.event("flatten_helpers_absent_or_other_shape")
    ctx.event("param_case")
    if len(m["control"]) >= 2 or any(len(r) >= 2 for r in m["sensors"].values()):
        ctx.nontrivial(spec)
        ctx.sample({"layer": "params", "control": m["control"], "sensor_noises": m["sensor_noises"], "set": {k: repr(v) for k, v in spec["set"].items()}}, limit=2)


@st.composite
def fit_cases(draw):
    m = draw(models.model_specs(calib_types=("float", "npfloat", "npfloat32"), names="ident", n_state=(1, 2), n_control=(0, 2), n_calib=(0, 1), n_sensors=(1, 2), n_readings=(1, 2),
                                depth=2, sensor_depth=1, euler="bounded", allow_positive=False, cse=False))
    width = len(m["control"]) + sum(len(r) for r in m["sensors"].values())
    rows = draw(st.integers(6, 24))
    scale = draw(st.sampled_from([0.3, 1.0, 1.0, 2.0]))
    X = [[scale * draw(models.signed_val()) for _ in range(width)] for _ in range(rows)]
    # every Config field may be non-default when fit starts; fit must hand back exactly this configuration
    cfg = {"extra_validation": draw(st.sampled_from([False, False, False, False, True])),
           "max_dt_sec": draw(st.sampled_from([0.1, 0.05, 0.5])),
           "innovation_filtering": draw(st.sampled_from([None, 2.0, 5.0, 7.5]))}
    return {"layer": "fit", "model": m, "X": X, "config": cfg}


def fit_case(spec, ctx):
    from formak.exceptions import MinimizationFailure

    m = spec["model"]
    X = np.array(spec["X"], float)
    with ctx.formak("Create", spec):
        ad = c16.make_adapter(m)
        if spec.get("config"):
            ad.set_params(**spec["config"])
    snap_model = ad.symbolic_model
    snap = {"sensor_models": copy.deepcopy(ad.sensor_models), "calibration_map": copy.deepcopy(ad.calibration_map), "config": ad.config}
    keys_pn = {str(k) for k in ad.process_noise}
    keys_sn = {k: {str(r) for r in v} for k, v in ad.sensor_noises.items()}
    before = (dict(m["process_noise"]), copy.deepcopy(m["sensor_noises"]))
    try:
        with ctx.watchdog(240, "fit-timeout"):
            try:
                with warnings.catch_warnings():
                    warnings.simplefilter("ignore")
                    ad.score(X)  # domain: the initial score must exist
            except Exception:
                ctx.skip("initial-score-undefined")
            try:
                with warnings.catch_warnings():
                    warnings.simplefilter("ignore")
                    out = ad.fit(X)
            except MinimizationFailure:
                ctx.event("fit:MinimizationFailure")
                return
    except (ctxmod.Violation, ctxmod.KnownFindingHit, ctxmod.SkipCase):
        raise
    except Exception as e:
        import traceback

        where = ctxmod.formak_frame(e.__traceback__)
        ctx.fail(f"fit-raised:{type(e).__name__}@{where}", "".join(traceback.format_exception(type(e), e, e.__traceback__))[-1800:], spec)
    ctx.event("fit:returned")
    if spec.get("config", {}).get("extra_validation"):
        ctx.event("fit:returned:extra_validation=True")
    if out is not ad:
        ctx.fail("fit-returned-other-object", f"{type(out)}", spec)
    if ad.symbolic_model is not snap_model or ad.sensor_models != snap["sensor_models"] or not models.same_values(ad.calibration_map, snap["calibration_map"]) or ad.config != snap["config"]:
        ctx.fail("fit-changed-definition", "symbolic_model / sensor_models / calibration_map / config differ after fit", spec)
    if {str(k) for k in ad.process_noise} != keys_pn:
        ctx.fail("fit-noise-keys:process", f"{set(ad.process_noise)} vs {keys_pn}", spec)
    if set(ad.sensor_noises) != set(keys_sn) or any({str(r) for r in ad.sensor_noises[k]} != keys_sn[k] for k in keys_sn):
        ctx.fail("fit-noise-keys:sensor", f"{ad.sensor_noises} vs {keys_sn}", spec)
    vals_p = [float(v) for v in ad.process_noise.values()]
    vals_s = [float(v) for r in ad.sensor_noises.values() for v in r.values()]
    if not all(math.isfinite(v) for v in vals_p + vals_s):
        ctx.fail("fit-nonfinite-noise", f"{ad.process_noise} {ad.sensor_noises}", spec)
    if not all(v > 0 for v in vals_p):
        ctx.fail("fit-nonpositive-process-noise", f"{ad.process_noise}", spec)
    moved = {str(k): float(v) for k, v in ad.process_noise.items()} != before[0] or {k: {str(r): x for r, x in v.items()} for k, v in ad.sensor_noises.items()} != before[1]
    if moved:
        ctx.event("fit:noise-changed")
    if (len(m["control"]) >= 2 or any(len(r) >= 2 for r in m["sensors"].values())) and moved:
        ctx.nontrivial(spec)
    ctx.sample({"layer": "fit", "control": m["control"], "sensors": {k: sorted(v) for k, v in m["sensors"].items()}, "rows": len(X),
                "noise_before": before, "process_noise_after": {str(k): float(v) for k, v in ad.process_noise.items()},
                "sensor_noises_after": {k: {str(r): float(v) for r, v in d.items()} for k, d in ad.sensor_noises.items()}}, limit=4)


def case(spec, ctx):
    ctxmod.import_formak()
    with contextlib.redirect_stdout(io.StringIO()):
        if spec["layer"] == "params":
            param_case(spec, ctx)
        else:
            fit_case(spec, ctx)


def shard(ctx):
    ctx.run_given(param_cases(), case, label="params", share=0.3)
    ctx.run_given(fit_cases(), case, examples=ctx.budget["fit_examples"], label="fit")
