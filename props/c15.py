"""C15 — code generation is deterministic (hash seed, declaration order, containers)."""
from __future__ import annotations

import json
import os
import subprocess
import sys

from hypothesis import strategies as st

from props import c13
from vlib import cppharness as H
from vlib import ctxmod, models

PROP_ID = "C15"
LEVEL = "exploration"
RULE = (
    "Hypothesis draws a batch of definitions (3..5 states, 1..3 controls, 0..2 calibrations, 2..3 sensors; identifier "
    "names; sets used wherever allowed) and for each a variant: declaration order permuted/reversed, set<->list "
    "containers flipped, every dict (update map, noises, sensors, calibration map) built in reverse insertion order. "
    "Child interpreters are started with different PYTHONHASHSEED values (quick: 4, thorough: 24; 0 plus values derived "
    "from VERIF_SEED); each generates the whole batch through cpp.compile_ekf and cpp.compile (twice per process) and "
    "python.compile_ekf (every second child walks the batch in reverse order, so a definition is generated after different "
    "predecessors in different children) and reports sha256(header), sha256(source) and the Python arglist/readings layout. Oracle: all "
    "hashes and layouts of a definition are identical across seeds, across variant vs original, and across the two "
    "generations inside one process. Non-trivial = the definition has >=3 symbols in a set-typed category and >=2 "
    "sensors AND the children actually observed >=2 different raw iteration orders of that set (measured); distinct = "
    "sha1(definition)."
)
ASSUMPTIONS = [
    "the hash-seed quantifier is sampled (a leak needing one particular seed can be missed)",
    "byte identity is checked on the files the public entry points write",
]
BUDGET = {
    "quick": {"shards": 16, "examples": 2, "wall": 110, "seeds": 4, "batch": 2},
    "thorough": {"shards": 16, "examples": 100, "wall": 900, "seeds": 24, "batch": 4},
}


def seeds_for(base, n):
    out = [0]
    k = 0
    while len(out) < n:
        v = (base * 7919 + k * 104729 + 1) % 4294967295
        if v not in out:
            out.append(v)
        k += 1
    return out


def batches(nbatch):
    @st.composite
    def _b(draw):
        specs = []
        for _ in range(nbatch):
            m = draw(models.model_specs(names="ident", n_state=(3, 5), n_control=(1, 3), n_calib=(0, 2), n_sensors=(2, 3),
                                        n_readings=(1, 3), depth=2, sensor_depth=1, innovation=("none", "k")))
            m["containers"] = {"state": "set", "control": "set", "calib": draw(st.sampled_from(["set", "set", "list"]))}
            if specs and draw(st.booleans()):
                # reuse the previous definition's sensor names (different expressions / readings behind the same names)
                prev = sorted(specs[-1]["model"]["sensors"])
                ren = dict(zip(sorted(m["sensors"]), prev))
                m["sensors"] = {ren.get(k, k): v for k, v in m["sensors"].items()}
                m["sensor_noises"] = {ren.get(k, k): v for k, v in m["sensor_noises"].items()}
                m["symbol_keyed"] = [ren.get(k, k) for k in m.get("symbol_keyed", [])]
            multi = [k for k, rs in m["sensors"].items() if len(rs) >= 2]
            if multi and draw(st.sampled_from([False] * 5 + [True])):
                # readings AND noise of a multi-reading sensor keyed by Symbols: refused by the pinned tree (Symbols cannot be
                # sorted); if a tree accepts it, its output must not depend on the declaration order either
                m["symbol_keyed"] = sorted(set(m.get("symbol_keyed", [])) | {draw(st.sampled_from(sorted(multi)))})
                m["maybe_refused"] = True
            specs.append({"model": m, "perm": draw(st.integers(0, 5))})
        return {"batch": specs}

    return _b()


def identity_variant(m, perm):
    ident = {n: n for n in m["state"] + m["control"] + m["calib"]}
    rident = {k: {r: r for r in rs} for k, rs in m["sensors"].items()}
    return c13.twin_of(m, ident, rident, perm, flip=True)


def run_child(hashseed, batch_path, wd, reverse=False):
    env = dict(os.environ)
    env["PYTHONHASHSEED"] = str(hashseed)
    env["C15_REVERSED"] = "1" if reverse else "0"
    env["PYTHONPATH"] = ctxmod.VERIF + (":" + env["PYTHONPATH"] if env.get("PYTHONPATH") else "")
    r = subprocess.run([sys.executable, "-m", "vlib.c15child", batch_path, wd], capture_output=True, text=True, env=env,
                       cwd=ctxmod.VERIF, timeout=900)
    for line in r.stdout.splitlines():
        if line.startswith("C15CHILD "):
            return json.loads(line[9:])
    raise RuntimeError(f"child failed (hashseed {hashseed}): rc={r.returncode}\n{r.stderr[-1500:]}")


def case(spec, ctx):
    ctxmod.import_formak()
    items = []
    for i, b in enumerate(spec["batch"]):
        items.append({"id": f"{i}:orig", "spec": b["model"]})
        items.append({"id": f"{i}:variant", "spec": identity_variant(b["model"], b["perm"])})
    wd = H.workdir("c15")
    try:
        path = os.path.join(wd, "batch.json")
        with open(path, "w") as fh:
            json.dump(items, fh)
        seeds = seeds_for(ctx.base_seed, ctx.budget.get("seeds", 4))
        results = {}
        for j, hs in enumerate(seeds):
            cwd = os.path.join(wd, f"hs{hs}")
            os.makedirs(cwd, exist_ok=True)
            results[hs] = run_child(hs, path, cwd, reverse=(j % 2 == 1))
            ctx.add_extra("child_interpreters", 1)
    finally:
        H.cleanup(wd)
    for i, b in enumerate(spec["batch"]):
        m = b["model"]
        one = {"batch": [b]}
        ref = results[seeds[0]][f"{i}:orig"]
        if "error" in ref:
            ctx.fail("generation-error", ref["error"], one)
        raw_orders = set()
        # a definition the pinned tree refuses (two or more Symbol-keyed readings) takes part as well: the property speaks of
        # accepted definitions, whichever those are for the tree under test. Per generator (C++ filter, C++ model, Python) it
        # must be refused by every child and variant alike, or accepted by all of them and then satisfy the same identities.
        PARTS = {"ekf": ("ekf_header", "ekf_source"), "model": ("model_header", "model_source"), "py": ()}
        accepted = {}
        for part in PARTS:
            verdicts = {(hs, var): part not in results[hs][f"{i}:{var}"].get("part_errors", {}) for hs in seeds for var in ("orig", "variant")}
            if len(set(verdicts.values())) > 1:
                ctx.fail(f"acceptance-differs:{part}", f"definition {i}: accepted by {sorted(k for k, v in verdicts.items() if v)}, refused by "
                                                         f"{sorted(k for k, v in verdicts.items() if not v)}", one)
            accepted[part] = all(verdicts.values())
        if m.get("maybe_refused"):
            ctx.event("maybe_refused_definition:" + ",".join(f"{p_}={'accepted' if a_ else 'refused'}" for p_, a_ in sorted(accepted.items())))
        for hs in seeds:
            for var in ("orig", "variant"):
                r = results[hs][f"{i}:{var}"]
                if "error" in r:
                    ctx.fail("generation-error", f"hashseed {hs} {var}: {r['error']}", one)
                raw_orders.add(tuple(r["raw_state_order"]))
                for part, keys in PARTS.items():
                    if not accepted[part]:
                        continue
                    for k in keys:
                        if r[k] != ref[k]:
                            what = "hash-seed" if var == "orig" else "declaration-order/container"
                            ctx.fail(f"bytes-differ:{k}:{what}", f"definition {i}: {k} sha256 {r[k][:16]} (hashseed {hs}, {var}) != {ref[k][:16]} (hashseed {seeds[0]}, orig)", one)
                    if part == "py" and r["py_layout"] != ref["py_layout"]:
                        ctx.fail("python-layout-differs", f"hashseed {hs} {var}: {r['py_layout']} vs {ref['py_layout']}", one)
                    if part != "py" and not r[f"{part}_repeat_same"]:
                        ctx.fail("second-generation-differs", f"hashseed {hs} {var}", one)
                    if part != "py" and not r.get(f"{part}_config_unchanged", True):
                        ctx.fail("generation-modified-callers-config", f"hashseed {hs} {var}: the cpp.Config object passed in was changed by the generation", one)
                ctx.count()
        ctx.event("definitions")
        if len(raw_orders) >= 2:
            ctx.event("raw_set_order_varied_across_children")
        if len(m["state"]) >= 3 and len(m["sensors"]) >= 2 and len(raw_orders) >= 2 and accepted["ekf"]:
            ctx.nontrivial(m)
            ctx.sample({"state": m["state"], "control": m["control"], "sensors": {k: sorted(v) for k, v in m["sensors"].items()},
                        "raw_state_orders_seen": sorted(raw_orders)[:4], "hashseeds": seeds, "ekf_source_sha256": ref.get("ekf_source", "refused")[:16]})


def shard(ctx):
    ctx.run_given(batches(ctx.budget.get("batch", 3)), case)
