"""C12 — every generated filter can be driven through the C++ managed runtime."""
from __future__ import annotations

import os

from hypothesis import strategies as st

from props import c02
from vlib import cppharness as H
from vlib import ctxmod, ekf, models

PROP_ID = "C12"
LEVEL = "exploration"
RULE = (
    "The 16 configurations {control, no control} x {calibration, none} x {0,1,2,3 sensors} are enumerated completely in "
    "every run (one per shard); per configuration Hypothesis draws Euler-form models/sensors, max_dt_sec in "
    "{0.1,0.05,0.01,0.25,1.0}, filtering on/off and a history of 2..4 ticks (no readings / empty list / 1..3 readings with "
    "timestamps before, at and after the held time; times = held + (n+1/2)*max_dt, n in -3..3). The generated filter is "
    "compiled together with the real ManagedFilter.h: static_assert(ManagedFilter<ExtendedKalmanFilter>::compatible), "
    "construction with/without calibration, tick(t[,control]), tick(t[,control],{}) and tick with wrapped readings must "
    "compile. In the same binary the history is replayed by hand on a second filter object: the prediction steps the "
    "runtime chose (recorded by a subclass that hides process_model and forwards to it) and reading.sensor_model calls in "
    "the prescribed order; every reported move must satisfy the C10 predicate against the CONFIGURED max_dt_sec, and every tick result (state and covariance) must be bit-identical (hex text) between the real "
    "runtime instance, the recording instance and the by-hand replay. Non-trivial = the configuration has >=1 sensor and "
    "a tick carried >=1 reading; distinct = sha1(spec)."
)
ASSUMPTIONS = c02.ASSUMPTIONS + [
    "by-hand replay uses the step schedule the runtime reported (validity of that schedule is C10's property)",
]
BUDGET = {
    "quick": {"shards": 16, "examples": 5, "wall": 120},
    "thorough": {"shards": 16, "examples": 400, "wall": 900},
}


def cases(combo, nsens):
    @st.composite
    def _c(draw):
        m = draw(models.model_specs(names="ident", n_state=(1, 3), n_control=(1, 2), n_calib=(1, 2),
                                    n_sensors=(nsens, nsens), n_readings=(1, 3), depth=2, sensor_depth=2, combo=combo,
                                    euler="bounded", innovation=("none", "k"), allow_positive=False))
        n = len(m["state"])
        # "any configured maximum step": values that do not fit a fixed number of decimals, and very small ones
        m["config"]["max_dt"] = draw(st.sampled_from([0.1, 0.05, 0.01, 0.25, 1.0, 1.0 / 3.0, 0.0123456789, 0.7654321098,
                                                      1.5e-6, 2.5e-7, 3.3e-5]))
        max_dt = m["config"]["max_dt"]
        t0 = draw(st.sampled_from([0.0, 5.0, -2.0]))
        held = t0
        ticks = []
        for _ in range(draw(st.integers(2, 4))):
            readings = None
            kind = draw(st.sampled_from(["none", "empty", "some", "some"])) if nsens else draw(st.sampled_from(["none", "empty"]))
            if kind == "empty":
                readings = []
            elif kind == "some":
                readings = []
                for _ in range(draw(st.integers(1, 3))):
                    q = draw(st.sampled_from([-2.5, -0.5, 0.0, 0.5, 1.5, 2.5, 3.5]))
                    key = draw(st.sampled_from(sorted(m["sensors"])))
                    readings.append({"ts": held + q * max_dt, "key": key,
                                     "z": {r: draw(models.signed_val()) for r in m["sensors"][key]}})
                held = readings[-1]["ts"]
            ticks.append({"out": held + draw(st.sampled_from([0.5, 1.5, 2.5, 3.5, -0.5, -1.5])) * max_dt, "readings": readings})
        return {"model": m, "t0": t0, "ticks": ticks, "x0": draw(models.points(m)), "P0": draw(ekf.spd(n, lam=(0.5, 2.0)))}

    return _c()


def driver(m, ns="gen", name="filter"):
    st_, ct, ck = sorted(m["state"]), sorted(m["control"]), sorted(m["calib"])
    n = len(st_)
    sens = sorted(m["sensors"])
    cal = ", cal" if ck else ""
    ctl = ", u" if ct else ""
    L = []
    A = L.append
    A(f"#include <{ns}/{name}.h>\n#include <formak/runtime/ManagedFilter.h>\n#include <cstdio>\n#include <cstdlib>\n#include <cmath>\n#include <vector>")
    A(f"using namespace {ns};")
    A("using MF = formak::runtime::ManagedFilter<ExtendedKalmanFilter>;")
    A("static_assert(MF::compatible, \"generated filter must pass the managed runtime's compatibility check\");")
    A("static std::vector<double> g_steps;")
    A("struct Rec : ExtendedKalmanFilter {")
    A("  template <typename... A> StateAndVariance process_model(double dt, const A&... a) const { g_steps.push_back(dt); return ExtendedKalmanFilter::process_model(dt, a...); }")
    A("};")
    A("using MFR = formak::runtime::ManagedFilter<Rec>;")
    A("static_assert(MFR::compatible);")
    A("static double rd() { double v; if (scanf(\"%la\", &v) != 1) { exit(3); } return v; }")
    A("static int rdi() { int v; if (scanf(\"%d\", &v) != 1) { exit(3); } return v; }")
    A(f"static void show(const char* tag, const StateAndVariance& s) {{ printf(\"%s\", tag); for (int a = 0; a < {n}; ++a) printf(\" %a\", s.state.data(a, 0)); "
      f"for (int a = 0; a < {n}; ++a) for (int b = 0; b < {n}; ++b) printf(\" %a\", s.covariance.data(a, b)); printf(\"\\n\"); }}")
    A("int main() {")
    A("  static_assert(MF::runtime_compatible());")
    A("  StateAndVariance sv;")
    for s in st_:
        A(f"  sv.state.{s}() = rd();")
    A(f"  {{ int CI[{n}];")
    for i, s in enumerate(st_):
        A(f"    {{ Covariance t; for (int a = 0; a < {n}; ++a) for (int b = 0; b < {n}; ++b) t.data(a, b) = 0.0; t.{s}() = 1.0; CI[{i}] = -1; for (int a = 0; a < {n}; ++a) if (t.data(a, a) == 1.0) CI[{i}] = a; }}")
    A(f"    for (int a = 0; a < {n}; ++a) for (int b = 0; b < {n}; ++b) sv.covariance.data(CI[a], CI[b]) = rd(); }}")
    if ck:
        A("  CalibrationOptions co;")
        for k in ck:
            A(f"  co.{k} = {H.hexf(m['calib_values'][k])};")
        A("  Calibration cal(co);")
    if ct:
        A("  Control u;")
        for c in ct:
            A(f"  u.{c}() = rd();")
    A("  double t0 = rd(); int nticks = rdi();")
    A(f"  MF mf(t0, sv{cal}); MFR mfr(t0, sv{cal});")
    A("  ExtendedKalmanFilter hand; StateAndVariance held = sv; double held_t = t0;")
    A("  for (int t = 0; t < nticks; ++t) {")
    A("    double out = rd(); int nr = rdi();")
    A("    std::vector<MF::StampedReading> rs; std::vector<MFR::StampedReading> rsr; std::vector<double> tss;")
    A("    for (int k = 0; k < (nr < 0 ? 0 : nr); ++k) {")
    A("      double ts = rd(); int si = rdi(); tss.push_back(ts);")
    A("      switch (si) {")
    for si, key in enumerate(sens):
        T = key.title()
        A(f"        case {si}: {{ {T}Options o;")
        for r in sorted(m["sensors"][key]):
            A(f"          o.{r} = rd();")
        A(f"          {T} z(o); rs.push_back(MF::wrap(ts, z)); rsr.push_back(MFR::wrap(ts, z)); break; }}")
    A("        default: return 6;")
    A("      }")
    A("    }")
    A("    g_steps.clear();")
    A(f"    StateAndVariance r_rec = nr < 0 ? mfr.tick(out{ctl}) : mfr.tick(out{ctl}, rsr);")
    A("    std::vector<double> steps = g_steps;")
    A(f"    StateAndVariance r_real = nr < 0 ? mf.tick(out{ctl}) : mf.tick(out{ctl}, rs);")
    A("    // by hand, in the prescribed order, with the step schedule the runtime reported")
    A("    size_t pos = 0;")
    A("    auto advance = [&](StateAndVariance s, double from, double to) { double acc = 0.0; size_t first = pos;")
    A("      while (pos < steps.size() && std::fabs((to - from) - acc) >= 1e-9) {")
    A(f"        s = hand.process_model(steps[pos]{', s, cal' if ck else ', s'}{ctl}); acc += steps[pos]; ++pos; }}")
    A("      printf(\"move %a %a\", from, to); for (size_t q = first; q < pos; ++q) printf(\" %a\", steps[q]); printf(\"\\n\");")
    A("      return s; };")
    A("    for (size_t k = 0; k < rs.size(); ++k) {")
    A("      held = advance(held, held_t, tss[k]);")
    A(f"      held = rs[k].data->sensor_model(hand, held{cal});")
    A("      held_t = tss[k];")
    A("    }")
    A("    StateAndVariance r_hand = advance(held, held_t, out);")
    A("    printf(\"tick %d steps %zu used %zu\\n\", t, steps.size(), pos);")
    A("    show(\"real\", r_real); show(\"rec\", r_rec); show(\"hand\", r_hand);")
    A("  }")
    A("  return 0;")
    A("}")
    return "\n".join(L) + "\n"


def stdin_for(spec):
    m = spec["model"]
    st_, ct = sorted(m["state"]), sorted(m["control"])
    p = spec["x0"]
    toks = [H.hexf(p[s]) for s in st_]
    toks += [H.hexf(spec["P0"][i][j]) for i in range(len(st_)) for j in range(len(st_))]
    toks += [H.hexf(p[c]) for c in ct]
    toks += [H.hexf(spec["t0"]), str(len(spec["ticks"]))]
    sens = sorted(m["sensors"])
    for t in spec["ticks"]:
        toks.append(H.hexf(t["out"]))
        if t["readings"] is None:
            toks.append("-1")
        else:
            toks.append(str(len(t["readings"])))
            for r in t["readings"]:
                toks += [H.hexf(r["ts"]), str(sens.index(r["key"]))]
                toks += [H.hexf(r["z"][k]) for k in sorted(m["sensors"][r["key"]])]
    return " ".join(toks) + "\n"


def case(spec, ctx):
    ctxmod.import_formak()
    m = spec["model"]
    wd = H.workdir("c12")
    try:
        with ctx.watchdog(60, "cpp-generation-timeout"):
            with ctx.formak("generate:ekf", spec):
                res, header, source = H.generate(m, wd)
        drv = os.path.join(wd, "driver.cpp")
        with open(drv, "w") as fh:
            fh.write(driver(m))
        try:
            prog = H.compile_cpp(wd, [drv, source])
            ctx.add_extra("programs_compiled", 1)
            out = H.run(prog, stdin_for(spec))
        except H.CppError as e:
            if e.stage.endswith("timeout"):
                ctx.skip(e.stage)
            combo = f"control={bool(m['control'])},calibration={bool(m['calib'])},sensors={len(m['sensors'])}"
            ctx.fail(f"cpp:{e.stage}:{combo}", e.text[-3500:], spec)
    finally:
        H.cleanup(wd)

    from vlib import rt

    moves = [ln.split()[1:] for ln in out.splitlines() if ln.startswith("move ")]
    for mv in moves:
        vals = [float.fromhex(v) for v in mv]
        prob = rt.move_problem(vals[0], vals[1], vals[2:], m["config"]["max_dt"])
        if prob:
            ctx.fail("schedule-vs-configured-max_dt", f"configured max_dt_sec={m['config']['max_dt']!r}: {prob}", spec)
    lines = [ln for ln in out.splitlines() if not ln.startswith("move ")]
    if len(lines) != 4 * len(spec["ticks"]):
        ctx.fail("cpp:run", f"{len(lines)} output lines for {len(spec['ticks'])} ticks", spec)
    for i in range(len(spec["ticks"])):
        head, real, rec, hand = lines[4 * i: 4 * i + 4]
        h = head.split()
        if h[3] != h[5]:
            ctx.fail("by-hand:schedule-not-consumed", f"tick {i}: runtime took {h[3]} steps, prescribed moves account for {h[5]}", spec)
        r1, r2, r3 = real.split()[1:], rec.split()[1:], hand.split()[1:]
        if r1 != r2:
            ctx.fail("runtime:not-deterministic", f"tick {i}: real {r1[:4]} recording {r2[:4]}", spec)
        if r1 != r3:
            k = next(j for j in range(len(r1)) if r1[j] != r3[j])
            ctx.fail("tick-vs-by-hand", f"tick {i}: entry {k}: tick {r1[k]} ({float.fromhex(r1[k]) if 'n' not in r1[k] else r1[k]}) "
                                        f"by hand {r3[k]}; readings {spec['ticks'][i]['readings']}", spec)
    nsens = len(m["sensors"])
    ctx.event(f"config:control={bool(m['control'])},calibration={bool(m['calib'])},sensors={nsens}")
    ctx.event(f"max_dt={m['config']['max_dt']}")
    if nsens >= 1 and any(t["readings"] for t in spec["ticks"]):
        ctx.nontrivial(spec)
        ctx.sample({"state": m["state"], "control": m["control"], "calib": m["calib"], "sensors": {k: sorted(v) for k, v in m["sensors"].items()},
                    "max_dt": m["config"]["max_dt"], "t0": spec["t0"], "ticks": spec["ticks"]}, limit=3)


def shard(ctx):
    combo = c02.COMBOS[ctx.shard % 4]
    nsens = (ctx.shard // 4) % 4
    ctx.add_extra("exhaustive_configurations", ctx.nshards >= 16)
    ctx.run_given(cases(combo, nsens), case, label=f"{combo}{nsens}")
