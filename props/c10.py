"""C10 — managed filter moves through time in bounded, correctly directed steps (Python and C++ runtimes)."""
from __future__ import annotations

from vlib import ctxmod, rt

PROP_ID = "C10"
LEVEL = "exploration"
RULE = (
    "Hypothesis draws tick histories: a start time in +-1e4, a configured maximum step (Python: any of the run's 12 values; "
    "C++: the same 12 values as compile-time Tag::max_dt_sec of a recording Impl, table = project defaults 0.1/0.05/0.01/1.0 "
    "+ 8 log-uniform values in [1e-3,10] derived from VERIF_SEED), control/calibration presence, and 1..5 ticks with 0..4 "
    "readings; every target time is current + q*max_dt with q from: exact integers 0..300, integers +-1e-12..1e-6, halves, "
    "(0,1), (0,40), 0, and their negatives. The real runtime.ManagedFilter (Python) and the real ManagedFilter.h (C++, "
    "compiled once per run against a recording Impl offering exactly the generated filter's call signature) record every "
    "prediction step. Validity predicate per move (many schedules are correct): no step when the times are equal; every "
    "non-zero step has the sign of the move; |step| <= max_dt*(1+1e-12)+4ulp(t); |sum(steps)-(t1-t0)| < 1e-9 (+8ulp(t)). "
    "Non-trivial move = t1 != t0 and (max_dt != 0.1 or backwards or q within 1e-6 of an integer); distinct = sha1 of the "
    "(max_dt, t0, t1) triple."
)
ASSUMPTIONS = [
    "times of magnitude <= 1e4 so that 1e-9 s exceeds the spacing of doubles (the property's own quantifier)",
    "C++ max_dt_sec is a compile-time constant: 12 values per run are sampled",
    "the recording Impl stands in for a generated filter (C12 covers real generated filters)",
]
BUDGET = {
    "quick": {"shards": 16, "examples": 400, "wall": 100},
    "thorough": {"shards": 16, "examples": 200000, "wall": 900},
}


def prepare(tier, seed):
    return rt.prepare(tier, seed, tag="c10")


def finish(state):
    rt.finish(state)


def check_side(ctx, spec, side, events, max_dt):
    ref = rt.reference_fold(spec)
    ticks = rt.split_ticks(events)
    if len(ticks) != len(ref):
        ctx.fail(f"{side}:trace-shape", f"{len(ticks)} ticks recorded for {len(ref)} issued", spec)
    for te, rs in zip(ticks, ref):
        moves = rt.segment_moves(te, rs)
        if moves is None:
            ctx.event(f"{side}_unsegmentable_tick")
            continue
        for t_from, t_to, steps in moves:
            ctx.count()
            prob = rt.move_problem(t_from, t_to, steps, max_dt)
            if prob:
                kind = "direction" if "direction" in prob else "too-long" if "longer" in prob else "sum" if "sum to" in prob else "step-at-equal-times"
                ctx.fail(f"{side}:{kind}:{'backwards' if t_to < t_from else 'forwards'}", prob, spec)
            delta = t_to - t_from
            if delta != 0:
                q = abs(delta) / max_dt
                near = abs(q - round(q)) < 1e-6
                ctx.event(f"{side}_moves")
                if delta < 0:
                    ctx.event(f"{side}_backwards_moves")
                if near:
                    ctx.event(f"{side}_near_integer_multiple")
                if max_dt != 0.1 or delta < 0 or near:
                    ctx.nontrivial({"side": side, "max_dt": max_dt, "from": t_from, "to": t_to})
                    if len(steps) >= 2:
                        ctx.sample({"side": side, "max_dt": max_dt, "from": t_from, "to": t_to, "n_steps": len(steps),
                                    "first_steps": steps[:3], "last_step": steps[-1]}, limit=4)
            else:
                ctx.event(f"{side}_equal_times")


def case(spec, ctx):
    ctxmod.import_formak()
    st = ctx.state
    max_dt = spec["max_dt"]
    with ctx.formak("python:tick", spec):
        ev, _ = rt.run_py_history(spec, max_dt)
    check_side(ctx, spec, "python", ev, max_dt)
    if st["compile_error"]:
        ctx.fail("cpp:runtime-does-not-compile", st["compile_error"], spec)
    if st["table"][spec["I"]] != max_dt:
        ctx.skip("replay-with-different-table")
    cev = rt.run_cpp_history(st, spec)
    check_side(ctx, spec, "cpp", cev, max_dt)
    ctx.event(f"variant:cal={int(spec['cal'])},ctl={int(spec['ctl'])}")


def shard(ctx):
    ctx.add_extra("max_dt_table", ctx.state["table"])
    ctx.run_given(rt.histories(ctx.state["table"]), case)
