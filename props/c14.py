"""C14 — structurally invalid definitions are refused; valid ones are accepted (fault injection)."""
from __future__ import annotations

import contextlib
import io
import itertools
import os
import sys

from hypothesis import strategies as st

from vlib import cppharness as H
from vlib import ctxmod, models
from vlib import trees as T

PROP_ID = "C14"
LEVEL = "fault_enumeration"
RULE = (
    "Hypothesis draws a valid definition (1..3 states, 1..2 controls, 1..2 calibrations, 1..2 sensors of 1..2 readings); "
    "the check first requires that ui.Model, python.compile, python.compile_ekf, cpp.compile and cpp.compile_ekf all "
    "accept it (and that the C++ entry points write header and source); a second search does only this acceptance check "
    "over wider legal shapes (0..3 controls, 0..2 calibrations, 0..3 sensors, Symbol-keyed readings). Then every single structural fault of 17 classes "
    "is injected at EVERY applicable position of that definition (enumerated, not sampled): a symbol shared by two of "
    "state/control/calibration (3 pairs x each symbol); update map missing a state / with an extra key / with a key "
    "swapped for an undeclared or control symbol; calibration map missing / extra / swapped key; process noise missing / "
    "negative / keyed by a state, an undeclared symbol, a string, or a pair of controls standing in for a control's own entry; sensor expression using a control / an undeclared symbol spelled like a declared one (other assumptions) / an undeclared "
    "symbol; sensor-noise map missing a sensor / with an extra sensor / missing a reading / naming an unknown reading; "
    "plus generated pairs of faults. Oracle: ui.Model refuses, or else every compile entry point the fault is visible to "
    "raises, returns nothing and writes no header/source. Buckets are (entry point, fault class). Non-trivial = the base "
    "definition has >=2 symbols in the faulted category (so the position matters) and >=1 sensor; distinct = sha1(base "
    "definition, fault)."
)
ASSUMPTIONS = [
    "'refused' = any exception (the property says 'an error'); 'accepted' = no exception and, for C++, files written",
    "fault classes are the ones the property lists; positions are enumerated completely per base definition",
]
BUDGET = {
    "quick": {"shards": 16, "examples": 12, "wall": 110},
    "thorough": {"shards": 16, "examples": 1500, "wall": 900},
}
ENTRY_POINTS = ["python.compile", "python.compile_ekf", "cpp.compile", "cpp.compile_ekf"]
VISIBLE = {
    "overlap": ENTRY_POINTS, "update": ENTRY_POINTS,
    "calibration": ENTRY_POINTS,
    "process_noise": ["python.compile_ekf", "cpp.compile_ekf"],
    "sensor_symbol": ["python.compile_ekf", "cpp.compile_ekf"],
    "sensor_noise": ["python.compile_ekf", "cpp.compile_ekf"],
}


@st.composite
def base_specs(draw):
    return draw(models.model_specs(names="ident", n_state=(1, 3), n_control=(1, 2), n_calib=(1, 2), n_sensors=(1, 2),
                                   n_readings=(1, 2), depth=1, sensor_depth=1, cse=False, innovation=("none",)))


def raw_args(m):
    import sympy

    m = dict(m, symbol_keyed=[])  # faults address readings by their string names

    tab = models.symtab(m)
    tab["__undeclared__"] = sympy.Symbol("undeclared_zz")
    c = m["containers"]
    return {
        "tab": tab,
        "dt": tab[m["dt"]],
        "state": [tab[s] for s in m["state"]],
        "control": [tab[s] for s in m["control"]],
        "calibration": [tab[s] for s in m["calib"]],
        "kinds": dict(c),
        "state_model": models.state_model_exprs(m, tab),
        "calibration_map": models.calibration_map(m, tab),
        "process_noise": models.process_noise(m, tab),
        "sensor_models": models.sensor_models(m, tab),
        "sensor_noises": models.sensor_noises(m),
    }


def all_faults(m):
    """every single fault at every applicable position (JSON-able descriptors)"""
    F = []
    for s in m["state"]:
        F.append({"group": "overlap", "cls": "state-in-control", "sym": s})
        F.append({"group": "overlap", "cls": "state-in-calibration", "sym": s})
        F.append({"group": "update", "cls": "update-missing-state", "sym": s})
        F.append({"group": "update", "cls": "update-key-swapped-undeclared", "sym": s})
        for c in m["control"]:
            F.append({"group": "update", "cls": "update-key-swapped-control", "sym": s, "other": c})
    for c in m["control"]:
        F.append({"group": "overlap", "cls": "control-in-calibration", "sym": c})
        F.append({"group": "overlap", "cls": "control-in-state", "sym": c})
        F.append({"group": "update", "cls": "update-extra-key-control", "sym": c})
        F.append({"group": "process_noise", "cls": "process-noise-missing", "sym": c})
        F.append({"group": "process_noise", "cls": "process-noise-negative", "sym": c})
        F.append({"group": "process_noise", "cls": "process-noise-key-string", "sym": c})
        for c2 in m["control"]:
            if c2 != c:
                # right number of entries, but one control's own noise is replaced by a cross term
                F.append({"group": "process_noise", "cls": "process-noise-pair-instead-of-control", "sym": c, "other": c2})
    F.append({"group": "update", "cls": "update-extra-key-undeclared"})
    F.append({"group": "process_noise", "cls": "process-noise-for-undeclared"})
    for s in m["state"]:
        F.append({"group": "process_noise", "cls": "process-noise-for-state", "sym": s})
    for k in m["calib"]:
        F.append({"group": "overlap", "cls": "calibration-in-state", "sym": k})
        F.append({"group": "calibration", "cls": "calibration-map-missing", "sym": k})
        F.append({"group": "calibration", "cls": "calibration-map-swapped-undeclared", "sym": k})
        for s in m["state"]:
            F.append({"group": "calibration", "cls": "calibration-map-swapped-state", "sym": k, "other": s})
    F.append({"group": "calibration", "cls": "calibration-map-extra-undeclared"})
    for s in m["state"]:
        F.append({"group": "calibration", "cls": "calibration-map-extra-state", "sym": s})
    for key, rs in m["sensors"].items():
        F.append({"group": "sensor_noise", "cls": "sensor-noise-missing-sensor", "key": key})
        for r in rs:
            F.append({"group": "sensor_noise", "cls": "sensor-noise-missing-reading", "key": key, "reading": r})
            F.append({"group": "sensor_noise", "cls": "sensor-noise-unknown-reading", "key": key, "reading": r})
            F.append({"group": "sensor_noise", "cls": "sensor-noise-extra-reading", "key": key, "reading": r})
            F.append({"group": "sensor_symbol", "cls": "sensor-uses-undeclared", "key": key, "reading": r})
            for t in (m["state"][:1] + m["calib"][:1]):
                # an undeclared symbol spelled like a declared one (sympy symbols with other assumptions are other symbols)
                F.append({"group": "sensor_symbol", "cls": "sensor-uses-assumption-twin", "key": key, "reading": r, "sym": t})
            for c in m["control"]:
                F.append({"group": "sensor_symbol", "cls": "sensor-uses-control", "key": key, "reading": r, "sym": c})
    F.append({"group": "sensor_noise", "cls": "sensor-noise-extra-sensor"})
    return F


def _noise_key(a, key, reading):
    """the key object under which `reading` sits in the sensor's noise map (a string or a Symbol of that name)"""
    for k in a["sensor_noises"][key]:
        if str(k) == str(reading):
            return k
    raise KeyError(reading)


def apply_fault(a, f):
    tab = a["tab"]
    und = tab["__undeclared__"]
    cls = f["cls"]
    sym = tab.get(f.get("sym")) if f.get("sym") else None
    other = tab.get(f.get("other")) if f.get("other") else None
    # each overlap fault is made the ONLY structural problem: the shared symbol also gets its noise / calibration value
    if cls == "state-in-control":
        a["control"].append(sym)
        a["process_noise"][sym] = 0.5
    elif cls == "state-in-calibration":
        a["calibration"].append(sym)
        a["calibration_map"][sym] = 0.25
    elif cls == "control-in-calibration":
        a["calibration"].append(sym)
        a["calibration_map"][sym] = 0.25
    elif cls == "control-in-state":
        a["state"].append(sym)
        a["state_model"][sym] = sym
    elif cls == "calibration-in-state":
        a["state"].append(sym)
        a["state_model"][sym] = sym
    elif cls == "update-missing-state":
        del a["state_model"][sym]
    elif cls == "update-key-swapped-undeclared":
        a["state_model"][und] = a["state_model"].pop(sym)
    elif cls == "update-key-swapped-control":
        a["state_model"][other] = a["state_model"].pop(sym)
    elif cls == "update-extra-key-control":
        a["state_model"][sym] = sym
    elif cls == "update-extra-key-undeclared":
        a["state_model"][und] = und
    elif cls == "process-noise-missing":
        del a["process_noise"][sym]
    elif cls == "process-noise-negative":
        a["process_noise"][sym] = -abs(a["process_noise"][sym])
    elif cls == "process-noise-key-string":
        a["process_noise"][str(sym)] = a["process_noise"].pop(sym)
    elif cls == "process-noise-pair-instead-of-control":
        del a["process_noise"][sym]
        a["process_noise"][(sym, other)] = 0.0
    elif cls == "process-noise-for-undeclared":
        a["process_noise"][und] = 0.5
    elif cls == "process-noise-for-state":
        a["process_noise"][sym] = 0.5
    elif cls == "calibration-map-missing":
        del a["calibration_map"][sym]
    elif cls == "calibration-map-swapped-undeclared":
        a["calibration_map"][und] = a["calibration_map"].pop(sym)
    elif cls == "calibration-map-swapped-state":
        a["calibration_map"][other] = a["calibration_map"].pop(sym)
    elif cls == "calibration-map-extra-undeclared":
        a["calibration_map"][und] = 0.25
    elif cls == "calibration-map-extra-state":
        a["calibration_map"][sym] = 0.25
    elif cls == "sensor-noise-missing-sensor":
        del a["sensor_noises"][f["key"]]
    elif cls == "sensor-noise-extra-sensor":
        a["sensor_noises"]["ghost_sensor"] = {"g": 0.5}
    elif cls == "sensor-noise-missing-reading":
        del a["sensor_noises"][f["key"]][_noise_key(a, f["key"], f["reading"])]
    elif cls == "sensor-noise-unknown-reading":
        a["sensor_noises"][f["key"]]["ghost_reading"] = a["sensor_noises"][f["key"]].pop(_noise_key(a, f["key"], f["reading"]))
    elif cls == "sensor-noise-extra-reading":
        a["sensor_noises"][f["key"]]["ghost_reading"] = 0.5
    elif cls == "sensor-uses-undeclared":
        a["sensor_models"][f["key"]][f["reading"]] = a["sensor_models"][f["key"]][f["reading"]] + 2 * und
    elif cls == "sensor-uses-assumption-twin":
        import sympy

        twin = sympy.Symbol(sym.name) if sym.is_positive else sympy.Symbol(sym.name, positive=True)
        assert twin != sym
        a["sensor_models"][f["key"]][f["reading"]] = a["sensor_models"][f["key"]][f["reading"]] + 2 * twin
    elif cls == "sensor-uses-control":
        import sympy

        # cannot cancel: valid sensor expressions never mention a control symbol
        a["sensor_models"][f["key"]][f["reading"]] = a["sensor_models"][f["key"]][f["reading"]] + sympy.exp(sym)
    else:
        raise ValueError(cls)


def cont(kind, items):
    return set(items) if kind == "set" else list(items)


def build_ui(a):
    from formak import ui

    with contextlib.redirect_stdout(io.StringIO()):  # ui.Model prints before raising
        return _build_ui(a, ui)


def _build_ui(a, ui):
    return ui.Model(dt=a["dt"], state=cont(a["kinds"]["state"], a["state"]), control=cont(a["kinds"]["control"], a["control"]),
                    state_model=dict(a["state_model"]), calibration=cont(a["kinds"]["calib"], a["calibration"]))


def run_entry(ep, model, a, wd):
    """-> (raised: Exception|None, artefact: bool)"""
    from formak import cpp, python

    header = os.path.join(wd, "generated", "f", f"{ep.replace('.', '_')}.h")
    source = header[:-2] + ".cpp"
    os.makedirs(os.path.dirname(header), exist_ok=True)
    for p in (header, source):
        if os.path.exists(p):
            os.remove(p)
    old = sys.argv
    sys.argv = ["generator.py", "--header", header, "--source", source, "--namespace", "f"]
    exc, obj = None, None
    try:
        with contextlib.redirect_stdout(io.StringIO()):
            if ep == "python.compile":
                obj = python.compile(model, dict(a["calibration_map"]), config={"common_subexpression_elimination": False})
            elif ep == "python.compile_ekf":
                obj = python.compile_ekf(model, dict(a["process_noise"]), a["sensor_models"], a["sensor_noises"],
                                         dict(a["calibration_map"]), config={"common_subexpression_elimination": False})
            elif ep == "cpp.compile":
                obj = cpp.compile(model, dict(a["calibration_map"]), config={"common_subexpression_elimination": False})
            elif ep == "cpp.compile_ekf":
                obj = cpp.compile_ekf(model, dict(a["process_noise"]), a["sensor_models"], a["sensor_noises"],
                                      dict(a["calibration_map"]), config={"common_subexpression_elimination": False})
    except (ctxmod.CaseTimeout, KeyboardInterrupt):
        raise
    except Exception as e:  # "an error"
        exc = e
    finally:
        sys.argv = old
    files = os.path.exists(header) or os.path.exists(source)
    return exc, obj, files


def attempt(ctx, base, faults, wd):
    """inject `faults` (list) into the base definition and check the refusal contract"""
    m = base
    a = raw_args(m)
    for f in faults:
        apply_fault(a, f)
    label = "+".join(f["cls"] for f in faults)
    groups = {f["group"] for f in faults}
    visible = [ep for ep in ENTRY_POINTS if any(ep in VISIBLE[g] for g in groups)]
    spec = {"model": m, "faults": faults}
    try:
        model = build_ui(a)
    except (ctxmod.CaseTimeout, KeyboardInterrupt):
        raise
    except Exception:
        ctx.event("refused_by:ui.Model")
        return
    for ep in visible:
        exc, obj, files = run_entry(ep, model, a, wd)
        if exc is None:
            ctx.fail(f"accepted-invalid:{ep}:{label}",
                     f"{ep} accepted a definition with fault {faults} (returned {type(obj).__name__}; files written: {files})", spec)
        if files:
            ctx.fail(f"artefact-despite-error:{ep}:{label}", f"{ep} raised {exc!r} but left a header/source file", spec)
        ctx.event(f"refused_by:{ep}")


def case(spec, ctx):
    ctxmod.import_formak()
    m = spec["model"]
    wd = H.workdir("c14")
    try:
        if "faults" in spec:  # replay of one specific attempt
            if spec["faults"]:
                attempt(ctx, m, spec["faults"], wd)
            else:
                check_valid(ctx, m, wd, keep_symbol_keys=bool(spec.get("valid_wide")))
                if spec.get("valid_wide"):
                    ctx.event(f"valid_wide:controls={len(m['control'])},calibrations={len(m['calib'])},sensors={len(m['sensors'])}")
                    ctx.nontrivial({"valid": m})
            return
        with ctx.watchdog(60, "fault-enumeration-timeout"):
            check_valid(ctx, m, wd)
            faults = all_faults(m)
            for f in faults:
                ctx.count()
                attempt(ctx, m, [f], wd)
                cat = {"overlap": m["state"] + m["control"] + m["calib"], "update": m["state"], "calibration": m["calib"],
                       "process_noise": m["control"], "sensor_symbol": m["state"], "sensor_noise": sum((list(r) for r in m["sensors"].values()), [])}[f["group"]]
                ctx.event(f"class:{f['cls']}")
                if len(cat) >= 2 and m["sensors"]:
                    ctx.nontrivial({"m": m, "f": f})
            for i in spec.get("pairs", []):
                f1, f2 = faults[i[0] % len(faults)], faults[i[1] % len(faults)]
                if f1 == f2 or conflicting(f1, f2):
                    continue
                ctx.count()
                attempt(ctx, m, [f1, f2], wd)
                ctx.event("fault_pairs")
        ctx.add_extra("fault_positions_enumerated", len(faults))
        ctx.sample({"state": m["state"], "control": m["control"], "calib": m["calib"], "sensors": {k: sorted(v) for k, v in m["sensors"].items()},
                    "n_single_faults": len(faults), "example_faults": faults[:3]})
    finally:
        H.cleanup(wd)


def conflicting(f1, f2):
    """two faults that touch the same dictionary entry cannot both be applied"""
    k1 = (f1["group"], f1.get("sym"), f1.get("key"), f1.get("reading"))
    k2 = (f2["group"], f2.get("sym"), f2.get("key"), f2.get("reading"))
    return k1 == k2 or (f1["group"] == f2["group"] and f1["group"] in ("update", "overlap", "calibration", "process_noise", "sensor_noise")
                        and (f1.get("sym") == f2.get("sym") or f1.get("other") == f2.get("sym") or f1.get("sym") == f2.get("other")))


def check_valid(ctx, m, wd, keep_symbol_keys=False):
    a = raw_args(m)
    if keep_symbol_keys:
        a["sensor_models"], a["sensor_noises"] = models.sensor_models(m, a["tab"]), models.sensor_noises(m)
    spec = {"model": m, "faults": []}
    try:
        model = build_ui(a)
    except Exception as e:
        ctx.fail("valid-refused:ui.Model", repr(e), spec)
    for ep in ENTRY_POINTS:
        exc, obj, files = run_entry(ep, model, a, wd)
        if exc is not None:
            where = ctxmod.formak_frame(exc.__traceback__)
            ctx.fail(f"valid-refused:{ep}", f"{type(exc).__name__}@{where}: {exc!r}", spec)
        if ep.startswith("cpp.") and not (files and getattr(obj, "success", False)):
            ctx.fail(f"valid-no-files:{ep}", f"{obj}", spec)
    ctx.event("valid_accepted_by_all_five")


@st.composite
def cases(draw):
    m = draw(base_specs())
    pairs = [[draw(st.integers(0, 200)), draw(st.integers(0, 200))] for _ in range(6)]
    return {"model": m, "pairs": pairs}


@st.composite
def valid_wide_cases(draw):
    """valid definitions of unusual-but-legal shapes: no control / no calibration / no sensors, list containers,
    Symbol-keyed readings, LaTeX-free identifier names (the C++ entry points are exercised too)"""
    m = draw(models.model_specs(names="ident", n_state=(1, 4), n_control=(0, 3), n_calib=(0, 2), n_sensors=(0, 3),
                                n_readings=(1, 3), depth=1, sensor_depth=1, cse=False, innovation=("none", "k")))
    # a process noise of exactly 0.0 is not among the invalid kinds the property lists (missing / negative / not a control)
    for c in m["control"]:
        if draw(st.integers(0, 3)) == 0:
            m["process_noise"][c] = 0.0
    return {"model": m, "faults": [], "valid_wide": True}


def shard(ctx):
    ctx.run_given(cases(), case, share=0.7)
    ctx.run_given(valid_wide_cases(), case, examples=3 * ctx.examples, label="valid-wide")
