"""C06 — reading discarded iff NIS > k*sqrt(2m)+m; a discard changes nothing; Python / C++ helper / generated C++ agree."""
from __future__ import annotations

import itertools
import math
import os
import subprocess
from fractions import Fraction

import mpmath as mp
import numpy as np
from hypothesis import strategies as st

from vlib import cppharness as H
from vlib import ctxmod, ekf, models, oracle

PROP_ID = "C06"
LEVEL = "exploration"
RULE = (
    "Layer 1 (decision functions): Hypothesis draws m in 1..6, k in (0,10], an SPD S^-1 and an innovation scaled so "
    "that NIS = tau*T, tau in {0.2,0.9,0.99,1-1e-6,1+1e-6,1.01,1.1,5}; python remove_innovation and the C++ helper "
    "removeInnovation<m> (compiled once per run against the stand-in, driven over a pipe) must both equal the decision "
    "computed from the exact rational NIS (fractions) whenever |NIS-T| exceeds the rounding dead-zone, and agree with "
    "each other for m=1 always. Exact-boundary constructions y=(2^a,0..), S^-1=diag(T'/4^a,1..) with T' = T moved by "
    "j ulps, j in -3..3, are enumerated for all m, 6 values of k and a in -2..2 (NIS == T' bit-exactly: j<=0 must be kept, "
    "j>0 discarded). Layer 2 (Python filter): generated EKFs, readings targeted at tau in {0.2,0.9,1.1,5} x threshold: "
    "tau>1 => returned state/covariance array-equal to the inputs and the innovation still recorded; tau<1 and the "
    "disabled setting (tau up to 1e6) => the reference Kalman update. Layer 3 (generated C++): the same filter cases "
    "through the compiled generated filter (k is a compile-time constant there, so k is sampled: one program per case), "
    "decision/result/stored innovation compared with layer 2 and the reference. Non-trivial = m>=2, or within 3 ulp of "
    "the boundary, or a discard whose untouched-estimate clause was checked; distinct = sha1 of the case."
)
ASSUMPTIONS = [
    "both implementations form the threshold as k*sqrt(2*m)+m in IEEE doubles (read from the code); the exact oracle uses the real-number threshold with a dead-zone of 16*m*eps*sum|y_i||S_ij||y_j| + 8*eps*T",
    "C++ helper and generated filter run against the Eigen stand-in (plain triple-loop products, no FMA)",
    "generated-C++ thresholds are sampled (compile-time constants)",
]
BUDGET = {
    "quick": {"shards": 16, "examples": 400, "wall": 110, "filter_examples": 10, "cpp_examples": 2},
    "thorough": {"shards": 16, "examples": 400000, "wall": 900, "filter_examples": 3000, "cpp_examples": 60},
}
EPS = 2.0**-52
TAUS = [0.2, 0.9, 0.99, 1 - 1e-6, 1 + 1e-6, 1.01, 1.1, 5.0]

HELPER_SRC = r"""
#include <formak/innovation_filtering.h>
#include <cstdio>
template <int M> static int go(double k) {
  Eigen::Matrix<double, M, 1> y; Eigen::Matrix<double, M, M> S;
  for (int i = 0; i < M; ++i) { double v; if (scanf("%la", &v) != 1) return -1; y(i, 0) = v; }
  for (int i = 0; i < M; ++i) for (int j = 0; j < M; ++j) { double v; if (scanf("%la", &v) != 1) return -1; S(i, j) = v; }
  return formak::innovation_filtering::edit::removeInnovation<M>(k, y, S) ? 1 : 0;
}
int main() {
  int m; double k;
  while (scanf("%d %la", &m, &k) == 2) {
    int r = -2;
    switch (m) { case 1: r = go<1>(k); break; case 2: r = go<2>(k); break; case 3: r = go<3>(k); break;
                 case 4: r = go<4>(k); break; case 5: r = go<5>(k); break; case 6: r = go<6>(k); break; }
    printf("%d\n", r); fflush(stdout);
  }
  return 0;
}
"""


def prepare(tier, seed):
    ctxmod.import_formak()
    wd = H.workdir("c06helper")
    src = os.path.join(wd, "helper.cpp")
    with open(src, "w") as fh:
        fh.write(HELPER_SRC)
    prog = H.compile_cpp(wd, [src], out="helper")
    return {"helper": prog, "wd": wd}


def finish(state):
    if state:
        H.cleanup(state["wd"])


_proc = None


def cpp_decide(ctx, m, k, y, S):
    global _proc
    if _proc is None or _proc.poll() is not None:
        _proc = subprocess.Popen([ctx.state["helper"]], stdin=subprocess.PIPE, stdout=subprocess.PIPE, text=True, bufsize=1)
    vals = [H.hexf(v) for v in y] + [H.hexf(S[i][j]) for i in range(m) for j in range(m)]
    _proc.stdin.write(f"{m} {H.hexf(k)} " + " ".join(vals) + "\n")
    _proc.stdin.flush()
    line = _proc.stdout.readline().strip()
    if line not in ("0", "1"):
        raise RuntimeError(f"helper protocol error: {line!r}")
    return line == "1"


_tiny = {}


def py_decide(k, y, S):
    """python remove_innovation(innovation, S_inv) of a REAL filter built with Config(innovation_filtering=k) through the
    public compile_ekf (a one-state, one-sensor filter; 4 ms) — no stand-in for self, so the call depends on nothing but
    the public signature"""
    from formak import python, ui

    if "model" not in _tiny:
        x, dt = ui.Symbol("x"), ui.Symbol("dt")
        _tiny["model"] = (ui.Model(dt=dt, state={x}, control=set(), state_model={x: x}), x)
    model, x = _tiny["model"]
    f = python.compile_ekf(model, process_noise={}, sensor_models={"s": {"r": x}}, sensor_noises={"s": {"r": 1.0}},
                           config=python.Config(innovation_filtering=k))
    yv = np.array(y, dtype=float).reshape((-1, 1))
    return bool(f.remove_innovation(yv, np.array(S, dtype=float)))


def exact_nis(y, S):
    m = len(y)
    fy = [Fraction(v) for v in y]
    tot = Fraction(0)
    mag = Fraction(0)
    for i in range(m):
        for j in range(m):
            t = fy[i] * Fraction(S[i][j]) * fy[j]
            tot += t
            mag += abs(t)
    return tot, mag


def threshold_double(k, m):
    return k * math.sqrt(2 * m) + m


def decision_case(spec, ctx):
    m, k, y, S = spec["m"], spec["k"], spec["y"], spec["Sinv"]
    with ctx.formak("decision:python", spec):
        dpy = py_decide(k, y, S)
    dcc = cpp_decide(ctx, m, k, y, S)
    nis, mag = exact_nis(y, S)
    with mp.workdps(60):
        T = mp.mpf(k) * mp.sqrt(2 * m) + m
        nis_mp = mp.mpf(nis.numerator) / mp.mpf(nis.denominator)
        mag_mp = mp.mpf(mag.numerator) / mp.mpf(mag.denominator)
        dead = 16 * m * EPS * mag_mp + 8 * EPS * T
        outside = abs(nis_mp - T) > dead
        want = bool(nis_mp > T)
        ulps = float(abs(nis_mp - T) / (EPS * T))
    if spec.get("expect") is not None:
        # bit-exact boundary construction: decision dictated by the double threshold both implementations form
        want, outside = spec["expect"], True
    if outside:
        if dpy != want:
            ctx.fail("decision:python", f"m={m} k={k!r}: python says discard={dpy}, NIS={float(nis)!r} T={float(T)!r} ({ulps:.3g} ulp apart)", spec)
        if dcc != want:
            ctx.fail("decision:cpp-helper", f"m={m} k={k!r}: C++ helper says discard={dcc}, NIS={float(nis)!r} T={float(T)!r} ({ulps:.3g} ulp apart)", spec)
    else:
        ctx.event("inside_rounding_dead_zone")
    if (m == 1 or outside) and dpy != dcc:
        ctx.fail("decision:python-vs-cpp", f"m={m} k={k!r}: python {dpy} vs C++ helper {dcc}, NIS={float(nis)!r} T={float(T)!r}", spec)
    ctx.event(f"m={m}")
    ctx.event("discard" if want else "keep")
    if m >= 2 or ulps <= 3 or spec.get("expect") is not None:
        ctx.nontrivial(spec)
        if m >= 2:
            ctx.sample(spec, limit=2)


@st.composite
def decision_cases(draw):
    m = draw(st.integers(1, 6))
    k = draw(st.one_of(st.floats(0.01, 10.0, allow_nan=False), st.sampled_from([0.5, 1.0, 2.0, 3.0, 5.0, 8.0])))
    S = draw(ekf.spd(m, lam=(0.05, 20.0)))
    d = [draw(st.floats(-1, 1, allow_nan=False, allow_subnormal=False)) for _ in range(m)]
    if all(abs(x) < 1e-3 for x in d):
        d[0] = 1.0
    tau = draw(st.sampled_from(TAUS))
    y0 = np.array(d)
    nis0 = float(y0 @ np.array(S) @ y0)
    T = threshold_double(k, m)
    y = (y0 * math.sqrt(tau * T / nis0)).tolist()
    return {"layer": "decision", "m": m, "k": k, "y": y, "Sinv": S, "tau": tau}


def boundary_cases():
    """bit-exact NIS == T' constructions (finite, enumerated completely every run)"""
    for m, k, a, j in itertools.product(range(1, 7), [0.5, 1.0, 2.5, 5.0, 7.3, 0.1], range(-2, 3), range(-3, 4)):
        T = threshold_double(k, m)
        Tp = T
        for _ in range(abs(j)):
            Tp = math.nextafter(Tp, math.inf if j > 0 else -math.inf)
        y = [2.0**a] + [0.0] * (m - 1)
        S = [[0.0] * m for _ in range(m)]
        for i in range(m):
            S[i][i] = 1.0
        S[0][0] = Tp / 4.0**a
        yield {"layer": "decision", "m": m, "k": k, "y": y, "Sinv": S, "expect": j > 0, "ulp_offset": j, "a": a}


# ---- layers 2 and 3: filter level -------------------------------------------------------------


@st.composite
def filter_cases(draw, cpp=False, innovation=("k", "k", "none")):
    spec = draw(models.model_specs(names="ident" if cpp else draw(st.sampled_from(["ident", "free"])),
                                   n_state=(1, 3), n_control=(0, 1), n_calib=(0, 1), n_sensors=(1, 2), n_readings=(1, 4),
                                   depth=2, sensor_depth=2, innovation=innovation))
    n = len(spec["state"])
    ups = []
    for _ in range(4):
        key = draw(st.sampled_from(sorted(spec["sensors"])))
        ups.append({"key": key, "point": draw(models.points(spec)), "P": draw(ekf.spd(n)),
                    "dir": [draw(st.floats(-1, 1, allow_nan=False)) for _ in range(4)],
                    "tau": draw(st.sampled_from([0.2, 0.9, 1.1, 5.0, 1 - 1e-7, 1 + 1e-7, 1 - 3e-9, 1 + 3e-9])),
                    "big": draw(st.sampled_from([10.0, 1e3, 1e6]))})
    return {"layer": "cpp" if cpp else "python", "model": spec, "updates": ups}


def filter_case(spec, ctx):
    m = spec["model"]
    st_ = sorted(m["state"])
    k = m["config"]["innov"]
    with ctx.watchdog(20):
        with ctx.formak("compile_ekf", spec):
            f = models.compile_py_ekf(m)
    prepared = []
    for up in spec["updates"]:
        key, p = up["key"], up["point"]
        msize = len(m["sensors"][key])
        P = ekf.rescale_for_sensor(m, key, p, up["P"])
        if k is None:
            target, expect_discard = up["big"], False
        else:
            target, expect_discard = float(up["tau"] * ekf.threshold(k, msize)), up["tau"] > 1
        z = ekf.targeted_reading(m, key, p, P, up["dir"], target)
        prepared.append((up, key, p, P, z, expect_discard, msize))

    py_results = []
    for up, key, p, P, z, expect_discard, msize in prepared:
        state, cov = ekf.state_of(f, m, p), ekf.cov_of(f, P)
        snap = (state.data.copy(), cov.data.copy())
        f.innovations.pop(key, None)
        with ctx.formak("sensor_model", spec):
            out = f.sensor_model(state, cov, sensor_key=key, sensor_reading=f.make_reading(key, **z))
        xs, Pp = np.asarray(out.state.data, dtype=float), np.asarray(out.covariance.data, dtype=float)
        with mp.workdps(oracle.DPS):
            ref = oracle.ref_update(m, key, {s: p[s] for s in m["state"]}, oracle.mp_from_np(np.array(P, dtype=float)), z)
            if key not in f.innovations:
                ctx.fail("python:innovation-not-recorded", f"sensor {key!r}", spec)
            yscale = mp.matrix([[abs(ref["hx"][i]) + abs(mp.mpf(z[r]))] for i, r in enumerate(sorted(m["sensors"][key]))])
            ok, w = oracle.mat_close(np.array(f.innovations[key], dtype=float), ref["y"], yscale)
            if not ok:
                ctx.fail("python:innovation-value", f"recorded innovation {w}", spec)
            unchanged = np.array_equal(xs, snap[0]) and np.array_equal(Pp, snap[1])
            if expect_discard:
                if not unchanged:
                    ctx.fail("python:discard-changed-estimate" if np.array_equal(Pp, snap[1]) or np.array_equal(xs, snap[0])
                             else "python:not-discarded",
                             f"tau={up['tau']} k={k}: NIS={float(ref['nis'])!r} > T but returned estimate differs from input "
                             f"(state equal: {np.array_equal(xs, snap[0])}, covariance equal: {np.array_equal(Pp, snap[1])})", spec)
                if not (np.array_equal(state.data, snap[0]) and np.array_equal(cov.data, snap[1])):
                    ctx.fail("python:discard-modified-inputs", "", spec)
                ctx.event("python_discard_checked")
            else:
                okx, wx = oracle.mat_close(xs, ref["x"], ref["x_scale"])
                okp, wp = oracle.mat_close(Pp, ref["P"], ref["P_scale"])
                if not (okx and okp):
                    ctx.fail("python:wrongly-discarded" if unchanged else "python:update-value",
                             f"k={k} tau={up['tau']} NIS={float(ref['nis'])!r} m={msize}: expected the Kalman update; unchanged={unchanged} {wx} {wp}", spec)
                ctx.event("python_accept_checked" if k is not None else "python_disabled_checked")
        py_results.append((xs, Pp, unchanged, ref))
        if expect_discard or msize >= 2:
            ctx.nontrivial({"m": m, "up": up})

    if spec["layer"] == "cpp":
        lines = [H.sensor_line(m, key, p, P, z) for up, key, p, P, z, e, ms in prepared]
        try:
            with ctx.watchdog(60, "cpp-generation-timeout"):
                with ctx.formak("generate:ekf", spec, allow=(H.CppError,)):
                    pre, cs, info = H.build_and_run(m, lines, kind="ekf")
        except H.CppError as e:
            if e.stage.endswith("timeout"):
                ctx.skip(e.stage)
            ctx.fail(f"cpp:{e.stage}", e.text[-3000:], spec)
        ctx.add_extra("cpp_programs", 1)
        smap = [pre["idx"][("state", i)] for i in range(len(st_))]
        for c, (up, key, p, P, z, expect_discard, msize), (xs, Pp, unchanged, ref) in zip(cs, prepared, py_results):
            n = len(st_)
            cx = np.array([[c["ux"][(smap[i],)]] for i in range(n)])
            cP = np.array([[c["uP"][(smap[i], smap[j])] for j in range(n)] for i in range(n)])
            x_in = np.array([[p[s]] for s in st_])
            c_unchanged = np.array_equal(cx, x_in) and np.array_equal(cP, np.array(P))
            if c_unchanged != unchanged and (expect_discard or not unchanged):
                ctx.fail("cpp:decision-differs-from-python", f"k={k} tau={up['tau']}: python discarded={unchanged}, generated C++ discarded={c_unchanged}", spec)
            if expect_discard and not c_unchanged:
                ctx.fail("cpp:not-discarded-or-changed", f"k={k} tau={up['tau']} NIS={float(ref['nis'])!r}", spec)
            if not expect_discard:
                okx, wx = oracle.mat_close(cx, ref["x"], ref["x_scale"])
                okp, wp = oracle.mat_close(cP, ref["P"], ref["P_scale"])
                if not (okx and okp):
                    ctx.fail("cpp:wrongly-discarded" if c_unchanged else "cpp:update-value", f"k={k} tau={up['tau']}: {wx} {wp}", spec)
            if c.get("uyp") != 1:
                ctx.fail("cpp:innovation-not-recorded", f"sensor {key}", spec)
            rmap = [pre["idx"][("reading", sorted(m["sensors"]).index(key), ri)] for ri in range(msize)]
            cy = np.array([[c["uy"][(rmap[i],)]] for i in range(msize)])
            yscale = mp.matrix([[abs(ref["hx"][i]) + 1 + abs(ref["y"][i])] for i in range(msize)])
            ok, w = oracle.mat_close(cy, ref["y"], yscale)
            if not ok:
                ctx.fail("cpp:innovation-value", f"{w}", spec)
            ctx.event("cpp_discard_checked" if expect_discard else "cpp_accept_checked")
        ctx.sample({"layer": "cpp", "k": k, "sensors": {kk: sorted(v) for kk, v in m["sensors"].items()}, "line": lines[0]}, limit=4)
    else:
        ctx.sample({"layer": "python", "k": k, "state": m["state"], "sensors": m["sensors"], "update": spec["updates"][0]}, limit=3)


def case(spec, ctx):
    ctxmod.import_formak()
    if spec["layer"] == "decision":
        decision_case(spec, ctx)
    else:
        filter_case(spec, ctx)


def shard(ctx):
    ctxmod.import_formak()
    n_b = 0
    for i, b in enumerate(boundary_cases()):
        if i % ctx.nshards == ctx.shard:
            ctx.run_one(case, b)
            n_b += 1
    ctx.event("boundary_constructions", n_b)
    ctx.add_extra("exhaustive_boundary_subdomain", True)
    ctx.run_given(decision_cases(), case, label="decision", share=0.35)
    ctx.run_given(filter_cases(cpp=False), case, examples=ctx.budget["filter_examples"], label="pyfilter", share=0.3)
    # generated C++: the disabled setting is forced in every third shard (Hypothesis' first example is the minimal one,
    # so low example counts must not leave the class to chance)
    inn = ("none",) if ctx.shard % 3 == 0 else ("k",)
    ctx.run_given(filter_cases(cpp=True, innovation=inn), case, examples=ctx.budget["cpp_examples"], label="cppfilter")
