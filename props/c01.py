"""C01 — compiled Python model computes exactly the user's symbolic state model (by name, CSE on/off)."""
from __future__ import annotations

import numpy as np
from hypothesis import strategies as st

from vlib import ctxmod, models, oracle
from vlib import trees as T

PROP_ID = "C01"
LEVEL = "exploration"
RULE = (
    "Hypothesis draws a model definition (1..5 states, 0..3 controls, 0..2 calibrations; free-form/LaTeX or identifier "
    "names in random declaration order; set/list containers; expression trees over + - * / integer powers and "
    "sin cos tan tanh atan exp sqrt log sec with a shared-subtree pool in ~50 %) and 6 input points incl. dt of both "
    "signs and 0. Each is compiled by python.compile with CSE on and off and evaluated by name; oracle = own mpmath "
    "evaluation of the generator's tree (|got-ref| <= 1e-9*max(1,abs-scale)). Non-trivial = >=3 symbols and "
    "(declaration order != sorted order, or sympy.cse finds >=1 temporary, or calibration present); distinct = sha1 of "
    "the model spec."
)
ASSUMPTIONS = [
    "mpmath elementary functions and the harness' own tree evaluator are correct (cross-checked against sympy evalf on a sample)",
    "inputs restricted to |x| in [0.1,3], dt in +-[1e-3,0.5] or 0; denominators >= 1/e by construction",
    "tree depth <= 3, <= 5 states",
]
BUDGET = {
    "quick": {"shards": 16, "examples": 30, "wall": 100},
    "thorough": {"shards": 16, "examples": 7000, "wall": 900},
}


def _has_node(t, kinds):
    return isinstance(t, list) and bool(t) and (t[0] in kinds or any(_has_node(c, kinds) for c in t[1:]))


@st.composite
def cases(draw):
    spec = draw(models.model_specs(calib_types=models.CALIB_TYPES, names=draw(st.sampled_from(["free", "free", "ident"])), n_state=(1, 5), n_control=(0, 3), n_calib=(0, 2), depth=3,
                                   allow_string_form=True, allow_alt_dt=True, allow_wrap=True))
    pts = draw(models.point_sequences(spec, 6, dt=("pos", "neg"), extra_zero_dt=True))
    if len(spec["state"]) >= 2 and draw(st.integers(0, 5)) == 0:
        # a user-defined function (implemented through Config.python_modules) shared by two outputs, so that CSE hoists it
        inner = ["sym", draw(st.sampled_from(spec["state"] + spec["control"]))]
        for s_ in spec["state"][:2]:
            spec["trees"][s_] = ["add", spec["trees"][s_], ["ufun", ["mul", ["const", 1], inner]]]
        spec["ufun"] = True
        spec["string_form"] = []
    if any(_has_node(t_, ("wrap", "abs2")) for t_ in spec["trees"].values()) and draw(st.booleans()):
        # option x input class: the definitions a simplifier may get wrong (inverse compositions) meet the non-default
        # option that runs a simplifier over the definition itself (classes that are each rare are paired on purpose)
        spec["proactive_simplify"] = True
    if draw(st.sampled_from([False] * 7 + [True])):
        # an exact integer literal beyond 2**53, of either sign, in one update (x - 10**17, T - c**2*burn*dt, ...)
        s_ = draw(st.sampled_from(spec["state"]))
        big = ["const", T.BIG_FIRST + draw(st.integers(0, T.N_BIG - 1))]
        term = big if draw(st.booleans()) else ["mul", big, ["sym", draw(st.sampled_from(spec["state"] + spec["control"] + [spec["dt"]]))]]
        spec["trees"][s_] = [draw(st.sampled_from(["add", "sub"])), spec["trees"][s_], term]
        spec["string_form"] = [x_ for x_ in spec["string_form"] if x_ != s_]
        spec["big_literal"] = True  # (key on the case, informational)
    # one point with integer-valued states: also handed over as an integer array through State.from_data
    ip = dict(pts[0])
    for s_ in spec["state"]:
        ip[s_] = float(draw(st.sampled_from([1, 2, 3] if s_ in spec["positive"] else [-2, -1, 1, 2, 3])))
    return {"model": spec, "points": pts, "int_point": ip, "shadow_first": draw(st.sampled_from([False, False, True])),
            "extra_validation": draw(st.sampled_from([False] * 9 + [True]))}


def case(spec, ctx):
    ctxmod.import_formak()
    m = spec["model"]
    states = sorted(m["state"])
    built = {}
    xv = bool(spec.get("extra_validation"))
    with ctx.watchdog(20):
        if spec.get("shadow_first") and m["control"] and m["calib"]:
            # another definition with the same expressions and symbol set, control/calibration roles swapped, compiled
            # in the same process before this one: nothing of it may leak into this model
            try:
                models.compile_py_model(models.shadow_of(m, "roles"), common_subexpression_elimination=True)
                ctx.event("role_swapped_shadow_compiled_first")
            except Exception:
                ctx.event("shadow_not_accepted")
        for cse in (True, False):
            if xv:
                # extra_validation may legitimately refuse a model (or take long): such a model is not 'accepted'
                try:
                    built[cse] = models.compile_py_model(m, common_subexpression_elimination=cse, extra_validation=True)
                except ctxmod.CaseTimeout:
                    raise
                except Exception as e:
                    ctx.skip(f"extra_validation-refused:{type(e).__name__}")
                continue
            with ctx.formak("compile", spec):
                built[cse] = models.compile_py_model(m, common_subexpression_elimination=cse)
        n_temps, nested = models.cse_stats(m)
    if xv:
        ctx.event("extra_validation=True")

    # layout clause: documented name order
    for cse, model in built.items():
        got = [str(s) for s in model.arglist_state]
        if got != states:
            ctx.fail("layout:arglist_state", f"arglist_state={got} expected sorted {states}", spec)

    earlier = []  # (result object, snapshot of its values): must still hold after later evaluations
    for p in spec["points"]:
        for obj, snap in earlier:
            if not np.array_equal(np.asarray(obj.data, float), snap):
                ctx.fail("earlier-result-changed", "a State returned by model() changed when the model was evaluated again "
                                                   "(results alias internal storage)", spec)
        ref = oracle.ref_model(m, p)
        results = {}
        for cse, model in built.items():
            with ctx.formak(f"evaluate:cse={cse}", spec):
                state = model.State(**{s: p[s] for s in m["state"]})
                control = model.Control(**{c: p[c] for c in m["control"]})
                before = (state.data.copy(), control.data.copy())
                out = model.model(p[m["dt"]], state, control)
                if not m["control"]:
                    out2 = model.model(p[m["dt"]], state)
                    if not np.array_equal(out.data, out2.data):
                        ctx.fail("control-none-differs", "model(dt,state) != model(dt,state,Control())", spec)
            if not isinstance(out, model.State):
                ctx.fail("result-type", f"{type(out)}", spec)
            if not (np.array_equal(before[0], state.data) and np.array_equal(before[1], control.data)):
                ctx.fail("inputs-modified", "state/control data changed by model()", spec)
            vals = np.asarray(out.data, dtype=float).reshape(-1)
            if vals.shape != (len(states),):
                ctx.fail("result-shape", f"{vals.shape}", spec)
            results[cse] = vals
            earlier.append((out, np.asarray(out.data, float).copy()))
            for i, s in enumerate(states):
                r, sc = ref[s]
                if not oracle.close(vals[i], r, sc):
                    ctx.fail(
                        f"value:cse={cse}",
                        f"state {s!r} slot {i}: got {vals[i]!r} ref {float(r)!r} scale {sc:.3g} at {p}",
                        spec,
                    )
        for i, s in enumerate(states):
            sc = ref[s][1]
            if abs(results[True][i] - results[False][i]) > 2e-9 * max(1.0, sc):
                ctx.fail("cse-on-vs-off", f"state {s!r}: {results[True][i]!r} vs {results[False][i]!r}", spec)

    # the same values handed over as arrays of another dtype through from_data (only the shape is prescribed)
    ip = spec.get("int_point")
    if ip is not None:
        ref = oracle.ref_model(m, ip)
        p32 = dict(spec["points"][0])
        for s in m["state"]:
            p32[s] = float(np.float32(p32[s]))
        ref32 = oracle.ref_model(m, p32)
        for cse, model in built.items():
            for label, pt, rf, dtype in (("int64", ip, ref, np.int64), ("float32", p32, ref32, np.float32)):
                arr = np.array([[pt[s]] for s in states], dtype=dtype)
                with ctx.formak(f"evaluate:from_data:{label}:cse={cse}", spec):
                    out = model.model(pt[m["dt"]], model.State.from_data(arr), model.Control(**{c: pt[c] for c in m["control"]}))
                vals = np.asarray(out.data, dtype=float).reshape(-1)
                for i, s in enumerate(states):
                    if not oracle.close(vals[i], rf[s][0], rf[s][1]):
                        ctx.fail(f"value:from_data:{label}", f"state {s!r}: got {vals[i]!r} ref {float(rf[s][0])!r} for a {label} state array {arr.ravel().tolist()}", spec)
        ctx.event("from_data_dtypes_checked")
    if m.get("ufun"):
        ctx.event("user_function_via_python_modules")
    if m.get("big_literal"):
        ctx.event("integer_literal_beyond_2**53")

    total = models.total_symbols(m)
    decl = m["state"] != states or m["control"] != sorted(m["control"]) or m["calib"] != sorted(m["calib"])
    ctx.event(f"states={len(states)}")
    ctx.event("has_control" if m["control"] else "no_control")
    ctx.event("has_calibration" if m["calib"] else "no_calibration")
    if n_temps:
        ctx.event("cse_temps>=1")
    if nested:
        ctx.event("cse_nested_temps")
    if m["string_form"]:
        ctx.event("string_form")
    if m.get("proactive_simplify"):
        ctx.event("proactive_simplify")
    if m["dt"] != "dt":
        ctx.event("alt_dt_name")
    if any("\\" in n or "{" in n for n in m["state"] + m["control"] + m["calib"]):
        ctx.event("latex_names")
    if total >= 3 and (decl or n_temps >= 1 or m["calib"]):
        ctx.nontrivial(m)
        ctx.sample({"state": m["state"], "control": m["control"], "calib": m["calib"], "trees": m["trees"],
                    "point": spec["points"][0]})


def shard(ctx):
    ctx.run_given(cases(), case)
